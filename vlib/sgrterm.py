"""Reference SGR terminal -- the independent oracle for "what is displayed".

Written from ECMA-48 (8.3.117 SGR) and the xterm control-sequence table.  It does NOT import
anything from ansi_string, so an edit of the library's own tables is detected, not mirrored.

One slot per effect group, as the properties fix it ("a later setting overriding earlier ones of
the same effect", "15 effect groups" = 14 slots + reset):

    bold   1 2            clear 22        ital   3          clear 23
    ul     4 21           clear 24        blink  5 6        clear 25
    swap   7              clear 27        hide   8          clear 28
    strike 9              clear 29        font   11..20     clear 10 (default font)
    space  26             clear 50        box    51 52      clear 54
    over   53             clear 55
    fg     30-37 90-97 38;5;n 38;2;r;g;b  clear 39
    bg     40-47 100-107 48;5;n 48;2;r;g;b clear 49
    ulc    58;5;n 58;2;r;g;b              clear 59
    0 / empty sequence: clear everything.   Anything else: ignored.
"""
import re

SLOTS = ('bold', 'ital', 'ul', 'blink', 'swap', 'hide', 'strike', 'font', 'space', 'box',
         'over', 'fg', 'bg', 'ulc')

APPLY = {}
CLEAR = {}
for _c in (1, 2):
    APPLY[_c] = 'bold'
APPLY[3] = 'ital'
APPLY[4] = 'ul'
APPLY[21] = 'ul'
APPLY[5] = 'blink'
APPLY[6] = 'blink'
APPLY[7] = 'swap'
APPLY[8] = 'hide'
APPLY[9] = 'strike'
for _c in range(11, 21):
    APPLY[_c] = 'font'
APPLY[26] = 'space'
APPLY[51] = 'box'
APPLY[52] = 'box'
APPLY[53] = 'over'
for _c in list(range(30, 38)) + list(range(90, 98)):
    APPLY[_c] = 'fg'
for _c in list(range(40, 48)) + list(range(100, 108)):
    APPLY[_c] = 'bg'
CLEAR.update({22: 'bold', 23: 'ital', 24: 'ul', 25: 'blink', 27: 'swap', 28: 'hide', 29: 'strike',
              10: 'font', 50: 'space', 54: 'box', 55: 'over', 39: 'fg', 49: 'bg', 59: 'ulc'})
EXT = {38: 'fg', 48: 'bg', 58: 'ulc'}

# every code that has a meaning (for "known code" questions: C15 / C18)
KNOWN_CODES = frozenset(APPLY) | frozenset(CLEAR) | frozenset(EXT) | {0}

_TOKEN = re.compile(r'[0-9]+\Z')


def tokens_of(body):
    """Split an SGR parameter string at ';'.  Returns list of str tokens."""
    return body.split(';')


def is_plain_body(body):
    """True iff every token is plain ASCII digits (or the whole body is empty)."""
    if body == '':
        return True
    return all(_TOKEN.match(t) for t in body.split(';'))


def apply_codes(state, codes, unk=None):
    """Apply a list of ints to a mutable dict state.  Returns set of ambiguity tags met:
    'incomplete' (38/48/58 followed by something else than 5 / 2), 'truncated' (a 5;n / 2;r;g;b group cut short by
    the end of the list: contributes nothing), 'range' (colour value > 255).
    Ambiguous elements are skipped the way the properties word it (contribute nothing) -- callers
    that hit an ambiguity tag do not assert the style, or, when they pass `unk` (a set), assert only the slots
    that are not in it afterwards: `unk` collects the slots whose value a conforming terminal could read
    differently; an explicit later set / clear of a slot, or a reset, makes it known again.
    Codes -1 / -2 stand for an empty / non-numeric parameter (only produced by apply_body with unk given).
    """
    amb = set()
    i = 0
    n = len(codes)
    poisoned = False

    real_unk = unk

    class _U:
        """unk proxy: once a group swallowed an empty / non-numeric parameter the roles of all following codes of this
        list are open, so nothing becomes known again before the next sequence"""
        def discard(self, x):
            if not poisoned:
                real_unk.discard(x)

        def clear(self):
            if not poisoned:
                real_unk.clear()
    unk_ = _U() if unk is not None else None
    while i < n:
        c = codes[i]
        if real_unk is not None and c in EXT and any(x < 0 for x in codes[i + 1:i + 5]):
            if (i + 1 < n and codes[i + 1] < 0) or (i + 2 < n and codes[i + 1] == 5 and codes[i + 2] < 0) or \
                    (i + 1 < n and codes[i + 1] == 2 and any(x < 0 for x in codes[i + 2:i + 5])):
                poisoned = True
                real_unk.update(SLOTS)
        if c == 0:
            state.clear()
            if unk is not None:
                unk_.clear()
            i += 1
        elif c < 0:
            # empty parameter (ECMA default 0 = reset, or ignored) / non-numeric parameter: everything set so far is open
            unk.update(SLOTS)
            if c == -2:
                # a non-numeric parameter (blank-padded number, sub-parameters ...) may itself be read as a code - even as a
                # group introducer - so the roles of all following codes are open as well
                poisoned = True
            i += 1
        elif c in EXT:
            slot = EXT[c]
            if i + 2 < n and codes[i + 1] == 5:
                v = codes[i + 2]
                state[slot] = ('idx', v)
                if unk is not None:
                    unk_.discard(slot)
                if v > 255 or v < 0:
                    amb.add('range')
                    if unk is not None:
                        unk.add(slot)
                i += 3
            elif i + 4 < n and codes[i + 1] == 2:
                r, g, b = codes[i + 2:i + 5]
                state[slot] = ('rgb', r, g, b)
                if unk is not None:
                    unk_.discard(slot)
                if max(r, g, b) > 255 or min(r, g, b) < 0:
                    amb.add('range')
                    if unk is not None:
                        unk.add(slot)
                i += 5
            elif i + 1 >= n or (codes[i + 1] in (2, 5)):
                # the group is cut short by the end of the list: it contributes nothing (tag only, the
                # reading "contributes nothing" is what C18 states; C02 leaves that colour slot open)
                amb.add('truncated')
                if unk is not None:
                    unk.add(slot)
                i = n
            else:
                amb.add('incomplete')
                if unk is not None:
                    unk.update(SLOTS)   # how many of the following codes belong to the group is open
                    poisoned = True
                i += 1
        elif c in APPLY:
            state[APPLY[c]] = c
            if unk is not None:
                unk_.discard(APPLY[c])
            i += 1
        elif c in CLEAR:
            state.pop(CLEAR[c], None)
            if unk is not None:
                unk_.discard(CLEAR[c])
            i += 1
        else:
            i += 1  # unknown: ignored
    return amb


def apply_body(state, body, unk=None):
    """Apply one SGR parameter string (the text between ESC[ and m).  Returns ambiguity tags."""
    if body == '':
        state.clear()
        if unk is not None:
            unk.clear()
        return set()
    amb = set()
    codes = []
    for t in body.split(';'):
        if _TOKEN.match(t):
            codes.append(int(t))
        elif t == '':
            amb.add('empty')       # ECMA: default value 0; library: ignored
            codes.append(0 if unk is None else -1)
        else:
            amb.add('nonnumeric')  # ':' sub-parameters, blanks, private markers ...
            if unk is not None:
                codes.append(-2)
    amb |= apply_codes(state, codes, unk)
    return amb


def freeze(state):
    return tuple(sorted(state.items(), key=lambda kv: kv[0]))


def reduce_settings(texts):
    """Effective style of an ordered list of setting texts (each one parameter string), later
    overriding earlier.  Returns (frozen_state, ambiguity_tags)."""
    st = {}
    amb = set()
    for t in texts:
        amb |= apply_body(st, str(t))
    return freeze(st), amb


def groups_of(text):
    """Set of slots a setting text touches ('*' for reset = all).  Unknown / malformed -> ()."""
    text = str(text)
    if not is_plain_body(text) or text == '':
        return frozenset(['?'])
    codes = [int(t) for t in text.split(';')]
    out = set()
    i = 0
    n = len(codes)
    while i < n:
        c = codes[i]
        if c == 0:
            out.add('*')
            i += 1
        elif c in EXT:
            out.add(EXT[c])
            if i + 2 < n and codes[i + 1] == 5:
                i += 3
            elif i + 4 < n and codes[i + 1] == 2:
                i += 5
            else:
                out.add('?')
                i += 1
        elif c in APPLY:
            out.add(APPLY[c])
            i += 1
        elif c in CLEAR:
            out.add(CLEAR[c])
            i += 1
        else:
            i += 1
    return frozenset(out)


# CSI tokeniser: ESC [ , then any characters up to the first final byte 0x40-0x7E.
_CSI = re.compile('\x1b\\[([^\x40-\x7e]*)([\x40-\x7e])')
_SGR_STRICT = re.compile('\x1b\\[([\x20-\x3f]*)m')


def run(text, initial=None, track_unknown=False):
    """Interpret `text`.  Returns (cells, final_state, ambiguity_tags) with
    cells = [(char, frozen_state)] for every displayed character.
    Non-SGR CSI sequences and lone ESC are kept as displayed characters (they are text to the
    library, C02) and do not change the style.
    track_unknown=True: cells are (char, frozen_state, frozenset(unknown slots)) - the slots whose value is not
    determined because an earlier sequence was ambiguous (see apply_codes).
    """
    st = dict(initial or {})
    unk = set() if track_unknown else None
    cells = []
    amb = set()
    pos = 0
    n = len(text)

    def cell(ch):
        if track_unknown:
            return (ch, freeze(st), frozenset(unk))
        return (ch, freeze(st))
    while pos < n:
        m = _CSI.match(text, pos) if text.startswith('\x1b[', pos) else None
        if m and m.group(2) == 'm':
            body = m.group(1)
            if not all(0x20 <= ord(ch) <= 0x3f for ch in body):
                amb.add('body-bytes')
            amb |= apply_body(st, body, unk)
            pos = m.end()
        elif m:
            for ch in m.group(0):
                cells.append(cell(ch))
            pos = m.end()
        else:
            cells.append(cell(text[pos]))
            pos += 1
    return cells, freeze(st), amb


def strip_sgr(text):
    """Remove every ESC [ parameter/intermediate-bytes m sequence."""
    return _SGR_STRICT.sub('', text)


DIRTY = {'bold': 1, 'ital': 3, 'ul': 21, 'blink': 6, 'swap': 7, 'hide': 8, 'strike': 9, 'font': 13,
         'space': 26, 'box': 52, 'over': 53, 'fg': ('idx', 99), 'bg': ('rgb', 9, 8, 7),
         'ulc': ('idx', 77)}


def self_test():
    """Hand-computed vectors (not derived from the library)."""
    def st(*codes):
        s = {}
        apply_codes(s, list(codes))
        return s
    assert st(1) == {'bold': 1}
    assert st(1, 2) == {'bold': 2}
    assert st(1, 22) == {}
    assert st(1, 31, 0) == {}
    assert st(1, 38, 5, 214) == {'bold': 1, 'fg': ('idx', 214)}
    assert st(38, 2, 1, 2, 3, 4) == {'fg': ('rgb', 1, 2, 3), 'ul': 4}
    assert st(4, 58, 5, 200, 59) == {'ul': 4}
    assert st(48, 5, 1, 49) == {}
    assert st(11, 10) == {}
    assert st(56, 99) == {}
    assert st(21, 4) == {'ul': 4}
    assert st(51, 52, 53) == {'box': 52, 'over': 53}
    assert st(91, 101) == {'fg': 91, 'bg': 101}
    assert apply_codes({}, [38, 7]) == {'incomplete'}
    assert apply_codes({}, [3, 38, 2, 1, 2]) == {'truncated'} and apply_codes({}, [38]) == {'truncated'} and apply_codes({}, [38, 5]) == {'truncated'}
    _s = {}
    apply_codes(_s, [3, 38, 2, 1, 2])
    assert _s == {'ital': 3}
    assert apply_codes({}, [38, 5, 256]) == {'range'}
    cells, fin, amb = run('a\x1b[1;31mb\x1b[0mc\x1b[2Kd\x1b[mx')
    assert ''.join(c for c, _ in cells) == 'abc\x1b[2Kdx', cells
    assert cells[1][1] == (('bold', 1), ('fg', 31))
    assert cells[0][1] == () and cells[2][1] == () and fin == ()
    assert not amb
    assert run('\x1b[1;m')[2] == {'empty'}
    assert run('\x1b[1:2m')[2] == {'nonnumeric'}
    assert strip_sgr('a\x1b[1;31mb\x1b[Kc\x1b[ m') == 'ab\x1b[Kc'
    assert reduce_settings(['1', '38;5;3', '22'])[0] == (('fg', ('idx', 3)),)
    assert reduce_settings(['31', '0', '4'])[0] == (('ul', 4),)
    assert groups_of('1') == {'bold'} and groups_of('0') == {'*'} and groups_of('56') == frozenset()
    assert groups_of('38;2;1;2;3') == {'fg'} and groups_of('1;31') == {'bold', 'fg'}
    assert groups_of('x') == {'?'} and '?' in groups_of('38;5')
    c3, _, a3 = run('\x1b[31;4m\x1b[38;5m\x1b[1mB\x1b[;3mC\x1b[0mD', track_unknown=True)
    assert c3[0][1] == (('bold', 1), ('fg', 31), ('ul', 4)) and c3[0][2] == {'fg'}, c3[0]
    assert c3[1][2] == frozenset(SLOTS) - {'ital'} and dict(c3[1][1])['ital'] == 3
    assert c3[2][1] == () and c3[2][2] == frozenset()
    c5 = run('\x1b[ 58;5;9m5', track_unknown=True)[0]
    assert c5[0][2] == frozenset(SLOTS), c5
    c4 = run('\x1b[38;5;;4ma', track_unknown=True)[0]
    assert c4[0][2] == frozenset(SLOTS), c4
    assert len(SLOTS) == 14 and set(DIRTY) == set(SLOTS)
    assert set(APPLY.values()) | set(EXT.values()) == set(SLOTS)
    assert set(CLEAR.values()) == set(SLOTS)
