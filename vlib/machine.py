"""History executor: a register machine over live AnsiString / AnsiStr values (the stateful model
for C08 / C09).  A history is JSON: {'init': [prog...], 'steps': [{'r': recv, ...op...}]}.
Operands refer to registers ({'k':'reg','i':j}), plain strings, or the receiver itself.
Results of non-in-place operations join the register file, so later steps mutate results and
sources alike."""
import copy
from hypothesis import strategies as st
from vlib import gen
from vlib.core import HarnessError, lib_frame
from vlib.interp import (Interp, BuilderInvalid, apply_op, per_char, renders, tail_settings, describe, mk_settings)
from ansi_string import AnsiString, AnsiStr

MAX_REGS = 6
MAX_LEN = 120


def snap(v):
    try:
        return (type(v).__name__, v.base_str, tuple(per_char(v)), renders(v), tail_settings(v))
    except Exception as e:
        if lib_frame(e)[0] != 'lib':
            raise
        # the value no longer answers queries (consistency self-check fails): that is a change, too
        return (type(v).__name__, v.base_str, 'BROKEN: %s: %s' % (type(e).__name__, e), None, None)


def snap_diff(a, b):
    names = ('class', 'text', 'settings', 'rendering', 'tail')
    return [n for n, x, y in zip(names, a, b) if x != y]


def hist_operand():
    return gen.weighted((4, st.integers(0, 9).map(lambda i: {'k': 'reg', 'i': i})),
                        (2, gen.texts(0, 4).map(lambda t: {'k': 'str', 't': t})),
                        (2, st.just({'k': 'self'})))


def history(cfg, min_steps=3, max_steps=12, op_names=None, extra_ops=None, huge=False):
    one = gen.prog(cfg, depth=0, max_ops=2) if not huge else gen.weighted((150, gen.prog(cfg, depth=0, max_ops=2)), (1, gen.prog_huge(cfg)))
    init = st.lists(one, min_size=2, max_size=3)
    base = gen.op(cfg, 0, names=op_names or HIST_OPS, opnd=hist_operand())
    ops = base if extra_ops is None else gen.weighted((4, base), (1, extra_ops))
    step = st.tuples(st.integers(0, 9), ops).map(lambda x: dict(x[1], r=x[0]))
    return st.fixed_dictionaries({'init': init, 'steps': st.lists(step, min_size=min_steps, max_size=max_steps)})


HIST_OPS = ['apply'] * 4 + ['remove'] * 2 + ['slice', 'slice', 'clip', 'clip', 'add', 'add', 'add', 'iadd', 'iadd', 'iadd', 'join', 'join',
                                           'ljust', 'rjust', 'center', 'zfill', 'assign', 'replace', 'replace', 'strip', 'rstrip', 'lstrip',
                                           'rmprefix', 'rmsuffix', 'case', 'expandtabs', 'split', 'rsplit', 'splitlines', 'partition',
                                           'rpartition', 'copy', 'copy', 'fmtmatch', 'unfmtmatch', 'conv', 'conv', 'index', 'simplify', 'clear',
                                           'q_format', 'q_format', 'q_format', 'q_misc', 'setansi', 'setansi', 'setansi', 'applymatch', 'applymatch']

INPLACE_ONLY = ('apply', 'remove', 'simplify', 'clear', 'assign', 'fmtmatch', 'unfmtmatch', 'iadd', 'setansi', 'applymatch')


def is_inplace(v, op):
    if not isinstance(v, AnsiString):
        return False
    if op['op'] in INPLACE_ONLY:
        return True
    return bool(op.get('ip')) and op['op'] in ('clip', 'ljust', 'rjust', 'center', 'zfill', 'replace', 'strip', 'lstrip', 'rstrip',
                                               'rmprefix', 'rmsuffix', 'case', 'expandtabs')


class Machine:
    def __init__(self, case, max_len=MAX_LEN):
        self.max_len = max_len
        self.regs = []
        ip = Interp()
        for p in case['init']:
            self.regs.append(ip.build_checked(p))
        if not self.regs:
            self.regs.append(AnsiString('ab', 'red'))

    def resolve(self, x, recv):
        k = x['k']
        if k == 'str':
            return x['t']
        if k == 'self':
            return recv
        if k == 'reg':
            return self.regs[x['i'] % len(self.regs)]
        if k == 'raw':
            return x['v']
        raise HarnessError('operand %r' % (x,))

    def operand_regs(self, op, ri):
        out = set()
        for key in ('x', 'new'):
            if key in op and op[key]['k'] == 'reg':
                out.add(op[key]['i'] % len(self.regs))
        for x in op.get('xs', []):
            if x['k'] == 'reg':
                out.add(x['i'] % len(self.regs))
        return out

    def store(self, v, step_no):
        if len(v) > self.max_len:
            return None
        if len(self.regs) < MAX_REGS:
            self.regs.append(v)
            return len(self.regs) - 1
        j = step_no % MAX_REGS
        self.regs[j] = v
        return j
