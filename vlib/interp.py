"""Interpreter: JSON programs -> library calls; snapshots; comparison relations; step bound."""
import functools, sys, os
from ansi_string import AnsiString, AnsiStr, AnsiFormat
from ansi_string.ansi_format import AnsiSetting, ColorComponentType
from vlib import sgrterm
from vlib.core import HarnessError, _is_lib

COMP = {'fg': ColorComponentType.FOREGROUND, 'bg': ColorComponentType.BACKGROUND,
        'ul': ColorComponentType.UNDERLINE, 'dul': ColorComponentType.DOUBLE_UNDERLINE}

FLAGS8 = [(o, rs, re_) for o in (True, False) for rs in (False, True) for re_ in (True, False)]


class BuilderInvalid(Exception):
    """The value builder hit an undocumented error (reported under C09 only)."""


class Rejected(ValueError):
    """A step raised a documented error (ValueError/TypeError/IndexError): value kept."""


# ------------------------------------------------------------------ settings

def mk_setting(spec):
    k = spec['k']
    v = spec.get('v')
    if k in ('name', 'str'):
        return v
    if k == 'fmt':
        return AnsiFormat[v]
    if k == 'int':
        return v
    if k == 'verb':
        return '[' + v
    if k == 'aset':
        return AnsiSetting(v)
    if k == 'rgb':
        a = spec['a']
        return AnsiFormat.rgb(*a, component=COMP[spec.get('c', 'fg')]) if len(a) == 3 else \
            AnsiFormat.rgb(a[0], component=COMP[spec.get('c', 'fg')])
    if k == 'c256':
        return AnsiFormat.color256(spec['a'], COMP[spec.get('c', 'fg')])
    if k == 'list':
        return [mk_setting(x) for x in v]
    if k == 'tuple':
        return tuple(mk_setting(x) for x in v)
    if k == 'none':
        return None
    raise HarnessError('bad setting spec %r' % (spec,))


def mk_settings(specs):
    if specs is None:
        return None
    return [mk_setting(s) for s in specs]


def texts_of_specs(specs):
    """Setting texts the spelling yields on a fresh one-character string (spelling equivalence
    itself is C14's subject)."""
    if not specs:
        return ()
    s = AnsiString('x')
    s.apply_formatting(mk_settings(specs))
    return tuple(str(x) for x in s.ansi_settings_at(0))


# ------------------------------------------------------------------ snapshots / relations

def per_char(v):
    return [tuple(str(x) for x in v.ansi_settings_at(i)) for i in range(len(v))]


def per_char_ids(v):
    return [tuple(id(x) for x in v.ansi_settings_at(i)) for i in range(len(v))]


def renders(v):
    return tuple(v.to_str(None, o, rs, re_) for (o, rs, re_) in FLAGS8)


def snap(v):
    return {'cls': type(v).__name__, 'text': v.base_str, 'per': per_char(v), 'render': renders(v),
            'tail': tail_settings(v)}


def tail_settings(v):
    """Settings a character appended to v would report (a closed value gives ())."""
    if isinstance(v, AnsiStr):
        w = AnsiString(v)
    else:
        w = v.copy()
    n = len(w)
    w += 'Z'
    return tuple(str(x) for x in w.ansi_settings_at(n))


@functools.lru_cache(maxsize=None)
def groups(text):
    return sgrterm.groups_of(text)


def same_settings(a, b):
    """'the same settings, with the same precedence among conflicting settings'."""
    if a == b:
        return True
    if sorted(a) != sorted(b):
        return False
    gs = set()
    for t in a:
        gs |= groups(t)
    for g in gs:
        sa = [t for t in a if g in groups(t) or '*' in groups(t)]
        sb = [t for t in b if g in groups(t) or '*' in groups(t)]
        if sa != sb:
            return False
    return True


def same_settings_seq(pa, pb):
    return len(pa) == len(pb) and all(same_settings(x, y) for x, y in zip(pa, pb))


@functools.lru_cache(maxsize=100000)
def style(settings_tuple):
    return sgrterm.reduce_settings(settings_tuple)[0]


def styles(per):
    return [style(tuple(p)) for p in per]


def wellformed(per):
    """True iff every setting text is plain digits/';' (what a terminal can read unambiguously)."""
    for p in per:
        for t in p:
            if not sgrterm.is_plain_body(t):
                return False
            if '?' in groups(t):
                return False
            st = {}
            if sgrterm.apply_body(st, t):
                return False
    return True


def change_points(per):
    return sum(1 for i in range(1, len(per)) if per[i] != per[i - 1])


def describe(v):
    try:
        return '%s(%r %s)' % (type(v).__name__, v.base_str, ' '.join('|'.join(p) or '-' for p in per_char(v)))
    except Exception as e:
        return '<undescribable %s: %s>' % (type(v).__name__, e)


# ------------------------------------------------------------------ program interpreter

DOC_ERRORS = (ValueError, TypeError, IndexError)


def is_selfcheck_error(e):
    return isinstance(e, ValueError) and 'could not remove setting' in str(e)


class Interp:
    """Builds values from programs.  strict=False: documented errors reject the step, other errors
    raise BuilderInvalid."""

    def __init__(self):
        self.rejected = 0
        self.steps = 0

    def build(self, prog, depth=0):
        if depth > 4:
            raise HarnessError('program nesting too deep')
        c = prog['ctor']
        k = c['k']
        try:
            if k == 'plain':
                v = AnsiString(c['t'])
            elif k == 'fmt':
                v = AnsiString(c['t'], *mk_settings(c['s']))
            elif k == 'ranges':
                v = AnsiString(c['t'])
                for r in c['r']:
                    v.apply_formatting(mk_settings(r['s']), r['a'], r['b'], r.get('top', True))
            elif k == 'ansi':
                v = AnsiString(c['t'])
            else:
                raise HarnessError('bad ctor %r' % (c,))
        except HarnessError:
            raise
        except DOC_ERRORS as e:
            if is_selfcheck_error(e):
                raise BuilderInvalid('ctor: %s' % e)
            # a constructor that rejects its arguments: fall back to the plain text
            self.rejected += 1
            v = AnsiString(c['t'] if k != 'ansi' else '')
        except Exception as e:
            raise BuilderInvalid('ctor: %s: %s' % (type(e).__name__, e))
        if prog.get('cls') == 's':
            v = AnsiStr(v)
        for op in prog.get('ops', []):
            v = self.step(v, op, depth)
        return v

    def build_checked(self, prog):
        """build + sanity queries: a value on which the library's own self-check already fails is a
        builder problem (C09's subject), not the subject of the property using the value."""
        v = self.build(prog)
        try:
            per_char(v)
            tail_settings(v)
            str(v)
        except Exception as e:
            from vlib.core import lib_frame
            if lib_frame(e)[0] != 'lib':
                raise
            raise BuilderInvalid('latent: %s: %s' % (type(e).__name__, e))
        return v

    def operand(self, x, recv, depth):
        k = x['k']
        if k == 'str':
            return x['t']
        if k == 'self':
            return recv
        if k == 'prog':
            return self.build(x['p'], depth + 1)
        raise HarnessError('bad operand %r' % (x,))

    MAX_BUILD_LEN = 300

    def step(self, v, op, depth=0):
        self.steps += 1
        try:
            if op.get('op') == 'replace':
                # replacing with a long value (e.g. the receiver itself) squares the length at every step; the library
                # also re-parses the text once per match, so such a step would take minutes without adding anything
                new = self.operand(op['new'], v, depth)
                try:
                    old_ = v.base_str if isinstance(op['old'], dict) else op['old']
                    grow = v.base_str.count(old_) * len(new) if old_ else (len(v) + 1) * len(new)
                except TypeError:
                    grow = 0
                if grow > 4 * self.MAX_BUILD_LEN:
                    raise Rejected('replacement too large for the builder')
            r = apply_op(v, op, lambda x: self.operand(x, v, depth))
            try:
                if len(r) > self.MAX_BUILD_LEN:
                    raise Rejected('value too long for the builder')
            except TypeError:
                pass
            return r
        except HarnessError:
            raise
        except BuilderInvalid:
            raise
        except DOC_ERRORS as e:
            if isinstance(e, Rejected):
                self.rejected += 1
                return v
            from vlib.core import lib_frame
            kind, where = lib_frame(e)
            if kind != 'lib':
                raise
            if is_selfcheck_error(e) or (isinstance(e, IndexError) and op.get('op') != 'index'):
                raise BuilderInvalid('%s: %s: %s' % (op.get('op'), type(e).__name__, e))
            self.rejected += 1
            return v
        except Exception as e:
            from vlib.core import lib_frame
            kind, where = lib_frame(e)
            if kind != 'lib':
                raise
            raise BuilderInvalid('%s: %s: %s' % (op.get('op'), type(e).__name__, e))


def pick(lst, k):
    if not lst:
        raise Rejected('no pieces')
    return lst[k % len(lst)]


def resolve_idx(x, v):
    """index spec -> int / None (see gen.ridx)"""
    if not isinstance(x, dict):
        return x
    n = len(v)
    if 'pc' in x:
        return n * x['pc'] // 100
    pts = [0]
    prev = None
    for i in range(n):
        cur = tuple(id(s) for s in v.ansi_settings_at(i)) if n <= 400 else None
        if i and cur != prev:
            pts.append(i)
        prev = cur
    pts.append(n)
    r = pts[x['pt'] % len(pts)] + x.get('d', 0)
    if x.get('neg'):
        r = r - n
        if r >= 0:
            r = -1
    return r


def _sets(op):
    """settings argument of an op; a caller may pre-build it (op['_S']) to inspect it afterwards"""
    return op['_S'] if '_S' in op else mk_settings(op['s'])


def apply_op(v, op, operand):
    """Apply one operation.  Mutable receiver + op['ip'] -> in-place form (returns v)."""
    name = op['op']
    mut = isinstance(v, AnsiString)
    if name in ('apply', 'remove', 'slice', 'clip') and (isinstance(op.get('a'), dict) or isinstance(op.get('b'), dict)):
        op = dict(op, a=resolve_idx(op.get('a'), v), b=resolve_idx(op.get('b'), v))
    ip = bool(op.get('ip')) and mut
    kw = {'inplace': True} if ip else {}
    if name == 'apply':
        if mut:
            v.apply_formatting(_sets(op), op['a'], op['b'], op.get('top', True))
            return v
        return v.apply_formatting(_sets(op), op['a'], op['b'], op.get('top', True))
    if name == 'remove':
        if mut:
            v.remove_formatting(_sets(op), op['a'], op['b'])
            return v
        return v.remove_formatting(_sets(op), op['a'], op['b'])
    if name == 'slice':
        return v[op['a']:op['b']]
    if name == 'index':
        return v[op['i']]
    if name == 'clip':
        return v.clip(op['a'], op['b'], **kw)
    if name == 'add':
        return v + operand(op['x'])
    if name == 'iadd':
        v += operand(op['x'])
        return v
    if name == 'join':
        return type(v).join(v, *[operand(x) for x in op['xs']])
    if name in ('ljust', 'rjust', 'center'):
        if mut:
            return getattr(v, name)(op['w'], op['f'], extend_formatting=op.get('ext', True), **kw)
        return getattr(v, name)(op['w'], op['f'])
    if name == 'zfill':
        return v.zfill(op['w'], **kw)
    if name == 'assign':
        if mut:
            v.assign_str(op['t'])
            return v
        # the immutable class has no assign_str: the same value is reached through a mutable copy
        c = AnsiString(v)
        c.assign_str(op['t'])
        return AnsiStr(c)
    if name == 'replace':
        old_ = v.base_str if isinstance(op['old'], dict) else op['old']   # {'whole': True}: the receiver's whole text
        return v.replace(old_, operand(op['new']), op.get('n', -1), **kw)
    if name in ('strip', 'lstrip', 'rstrip'):
        return getattr(v, name)(op.get('c'), **kw)
    if name == 'rmprefix':
        return v.removeprefix(op['t'], **kw)
    if name == 'rmsuffix':
        return v.removesuffix(op['t'], **kw)
    if name == 'case':
        return getattr(v, op['m'])(**kw)
    if name == 'expandtabs':
        return v.expandtabs(op['n'], **kw)
    if name in ('split', 'rsplit'):
        return pick(getattr(v, name)(op.get('sep'), op.get('n', -1)), op.get('pick', 0))
    if name == 'splitlines':
        return pick(v.splitlines(op.get('keep', False)), op.get('pick', 0))
    if name in ('partition', 'rpartition'):
        return pick(list(getattr(v, name)(op['sep'])), op.get('pick', 0))
    if name == 'simplify':
        if mut:
            v.simplify()
            return v
        return v.simplify()
    if name == 'clear':
        if mut:
            v.clear_formatting()
            return v
        return v.clear_formatting()
    if name == 'copy':
        return v.copy() if mut else AnsiStr(v)
    if name in ('fmtmatch', 'unfmtmatch'):
        f = v.format_matching if name == 'fmtmatch' else v.unformat_matching
        r = f(op['pat'], *(_sets(op) or []), regex=op.get('regex', False),
              match_case=op.get('mc', False), count=op.get('n', -1))
        return v if mut else r
    if name == 'conv':
        return AnsiString(v) if op['to'] == 'S' else AnsiStr(v)
    if name == 'setansi':
        if mut:
            v.set_ansi_str(op['t'])
            return v
        return AnsiStr(op['t'])
    if name == 'applymatch':
        import re as _re
        mo = _re.search(op['pat'], v.base_str)
        if mo is None:
            raise Rejected('no match')
        g = op.get('g', 0) if op.get('g', 0) <= mo.re.groups else 0
        if mo.start(g) < 0:
            raise Rejected('group did not participate')
        if mut:
            v.apply_formatting_for_match(_sets(op), mo, g)
            return v
        return v.apply_formatting_for_match(_sets(op), mo, g)
    if name == 'q_format':
        how = op.get('how', 0) % 3
        if how == 0:
            return format(v, op['spec'])
        if how == 1:
            return v.to_str(op['spec'], op.get('opt', True), op.get('rs', False), op.get('re', True))
        return ('{:' + op['spec'] + '}').format(v) if '{' not in op['spec'] and '}' not in op['spec'] else format(v, op['spec'])
    if name == 'q_misc':
        out = [str(v), repr(v), len(v), v.base_str, v.is_formatting_valid(), v.is_formatting_parsable(), v.is_optimizable(),
               v.find_settings('red'), v.find_settings(['bold', 'red'], 1, None, True), v.settings_at(0), v.encode(),
               [x.base_str for x in v], 'a' in v, v == v, v == 'a', v.count('a'), v.find('a'), v.endswith('a'), v.isupper()]
        w = operand(op['x']) if 'x' in op else 'a'
        out.append(w in v)
        out.append(v == w)
        return tuple(str(x) for x in out)
    raise HarnessError('bad op %r' % (op,))


# ------------------------------------------------------------------ deterministic step bound

class StepLimit(Exception):
    pass


def run_bounded(fn, limit):
    """Run fn() counting line events in library frames only; abort after `limit` events."""
    count = [0]

    def local(frame, event, arg):
        if event == 'line':
            count[0] += 1
            if count[0] > limit:
                raise StepLimit()
        return local

    def tracer(frame, event, arg):
        if _is_lib(frame.f_code.co_filename):
            return local
        return None
    old = sys.gettrace()
    sys.settrace(tracer)
    try:
        return fn(), count[0]
    finally:
        sys.settrace(old)
