"""Hypothesis strategies producing JSON cases: texts, setting specs, index arguments, value programs."""
import os
from hypothesis import strategies as st

ASCII = list('abAB \t\n-:+01x')
NONASCII = list('éßİǆ中') + ['\xa0', '\x1c', '\u2003', '\x85', '\x9b']   # incl. white space that only str.isspace() knows and the C1 control CSI (not an introducer here)


def texts(min_size=0, max_size=10, esc=False, nonascii=True, alphabet=None):
    alpha = list(alphabet) if alphabet else (ASCII * 3 + (NONASCII if nonascii else []))
    if esc:
        # single bytes and whole sequences (assign_str() puts them into the base text unparsed)
        alpha = alpha + ['\x1b', '[', 'm', '\x1b[1m', '\x1b[31m', '\x1b[m', '\x1b[2K']
    return st.lists(st.sampled_from(alpha), min_size=min_size, max_size=max_size).map(''.join)


def weighted(*pairs):
    """weighted choice between strategies: weighted((5, a), (1, b)).  (st.one_of silently merges
    repeated identical strategy objects, so weights cannot be expressed by repetition there.)"""
    pool = []
    for w, s in pairs:
        pool += [s] * w
    return st.sampled_from(pool).flatmap(lambda x: x)


def idx(far=True, span=14):
    hi = max(11, span - 3)
    opts = [(10, st.integers(0, hi)), (4, st.integers(-hi, -1)), (3, st.none()), (2, st.integers(-span, span))]
    if far:
        opts.append((1, st.sampled_from([10 ** 6, -10 ** 6, 100, -100, 12, 13, -12, -13])))
    return weighted(*opts)


def ridx(far=True, span=14):
    """index argument that may refer to the value it is used on: a plain int / None, or {'pt': k, 'd': d} = the k-th style
    change point (mod their number) plus d, or {'pc': p} = p percent of the length (resolved by interp.resolve_idx)"""
    return weighted((6, idx(far, span)),
                    (3, st.fixed_dictionaries({'pt': st.integers(0, 60), 'd': st.sampled_from([0, 0, 0, -1, 1])})),
                    (1, st.fixed_dictionaries({'pc': st.integers(0, 105)})),
                    (1, st.fixed_dictionaries({'pt': st.integers(0, 60), 'd': st.sampled_from([0, 0, -1, 1]), 'neg': st.just(True)})))


# ---- settings pool: built to conflict (several members per effect group incl. the clear code)

NAMES = ['bold', 'faint', 'no_bold_faint', 'italic', 'no_italic', 'underline', 'double_underline', 'no_underline',
         'red', 'blue', 'fg_default', 'bg_red', 'bg_default', 'bg_orange', 'orange', 'ul_red', 'dul_blue',
         'default_underline_color', 'slow_blink', 'no_blink', 'hide', 'no_hide', 'crossed_out', 'no_crossed_out',
         'alt_font_1', 'default_font', 'framed', 'encircled', 'no_framed_encircled', 'overlined', 'no_overlined',
         'proportional_spacing', 'no_proportional_spacing', 'swap_bg_fg', 'no_swap_bg_fg', 'fg_bright_red']
CORE_NAMES = ['bold', 'faint', 'no_bold_faint', 'red', 'blue', 'fg_default', 'underline', 'no_underline', 'bg_red',
              'bg_default', 'italic', 'orange', 'alt_font_1', 'default_font']


def _variant(name, how):
    if how == 0:
        return name
    if how == 1:
        return name.upper()
    if how == 2:
        return name.replace('_', ' ')
    if how == 3:
        return name.replace('_', '-').title()
    return name


_ALL = []


def all_names():
    """every AnsiFormat name (rarely used ones included); read from the library once"""
    if not _ALL:
        try:
            from ansi_string import AnsiFormat
            _ALL.extend(n.lower() for n in AnsiFormat.__members__)
        except Exception:
            pass
    return _ALL


def wf_spec():
    """one well-formed setting spec (each resulting setting is one complete SGR parameter group)."""
    name = st.one_of(st.sampled_from(CORE_NAMES), st.sampled_from(CORE_NAMES), st.sampled_from(NAMES))
    byte = weighted((6, st.sampled_from([0, 1, 2, 5, 128, 255, 38, 48, 58, 5, 2])),   # 38/48/58 + 5/2 look like group introducers
                    (1, st.integers(0, 255)))
    comp = st.sampled_from(['fg', 'fg', 'bg', 'ul', 'dul'])
    anyname = st.sampled_from(all_names())
    return st.one_of(
        st.tuples(anyname, st.sampled_from([0, 1, 2, 3])).map(lambda t: {'k': 'name', 'v': _variant(*t)}) if all_names() else st.nothing(),
        st.tuples(name, st.sampled_from([0, 0, 0, 1, 2, 3])).map(lambda t: {'k': 'name', 'v': _variant(*t)}),
        st.tuples(name, st.sampled_from([0, 0, 0, 1, 2, 3])).map(lambda t: {'k': 'name', 'v': _variant(*t)}),
        name.map(lambda n: {'k': 'fmt', 'v': n.upper()}),
        st.sampled_from([1, 2, 3, 4, 22, 24, 31, 34, 39, 41, 49, 21, 9, 29, 10, 11, 12, 10, 107, 100, 97, 90, 55, 59, 20, 30, 37, 40, 47]).map(lambda i: {'k': 'int', 'v': i}),
        st.sampled_from(['1', '31', '1;31', '4;34', '22', '39', '38;5;200', '1;38;5;200', '48;2;1;2;3;3', '58;5;3;4', 'rgb(1,2,3)', 'bg_color256(7)',
                         'rgb(1,2,3)', 'ul_rgb(0x102030)']).map(
            lambda s: {'k': 'str', 'v': s}),
        st.sampled_from(['1', '31', '38;5;214', '48;2;1;2;3', '22', '39', '2', '01', '04', '038;5;9', '031']).map(lambda s: {'k': 'verb', 'v': s}),
        st.sampled_from(['1', '34', '38;5;214', '24', '49', '03', '048;5;007']).map(lambda s: {'k': 'aset', 'v': s}),
        st.tuples(st.lists(byte, min_size=3, max_size=3), comp).map(lambda t: {'k': 'rgb', 'a': t[0], 'c': t[1]}),
        st.tuples(byte, comp).map(lambda t: {'k': 'c256', 'a': t[0], 'c': t[1]}),
    )


def odd_spec(reset=True, unknown=True, multi=True, invalid=False, incomplete=False):
    opts = []
    if reset:
        opts += [st.just({'k': 'int', 'v': 0}), st.just({'k': 'verb', 'v': '0'})]
    if unknown:
        opts += [st.just({'k': 'verb', 'v': '56'}), st.just({'k': 'int', 'v': 99}), st.just({'k': 'aset', 'v': '73'})]
    if multi:
        opts += [st.just({'k': 'verb', 'v': '1;31'}), st.just({'k': 'aset', 'v': '4;38;5;9'}), st.just({'k': 'verb', 'v': '22;39'})]
    if invalid:
        opts += [st.just({'k': 'verb', 'v': '1m'}), st.just({'k': 'aset', 'v': 'x'}), st.just({'k': 'verb', 'v': '3A4'}),
                 st.just({'k': 'aset', 'v': '31mZ\x1b[1'})]
    if incomplete:
        opts += [st.just({'k': 'verb', 'v': '38;5'}), st.just({'k': 'aset', 'v': '48;2;1'}), st.just({'k': 'verb', 'v': '38'})]
    return st.one_of(*opts)


class Cfg:
    """Generation switches for value programs."""

    def __init__(self, **kw):
        self.esc = False          # ESC in base texts
        self.nonascii = True
        self.odd = 0.0            # probability weight of an odd (reset/unknown/multi) setting
        self.reset = True
        self.unknown = True
        self.multi = True
        self.invalid = False
        self.incomplete = False
        self.max_ops = 5
        self.max_text = 10
        self.min_text = 0
        self.ops = None           # None = all builder ops
        self.cls_s = 0.2          # probability of an AnsiStr value
        self.ansi_ctor = True
        self.far = True
        self.rich = False         # bias towards position-dependent formatting
        self.alphabet = None      # restrict base-text alphabet
        self.big = False          # beyond small scope: long texts, many change points, wide index range
        self.idx_span = 14
        self.nranges = None       # (lo, hi) number of constructor ranges
        self.__dict__.update(kw)


def spec(cfg):
    if cfg.odd > 0:
        w = max(1, int(round(1 / cfg.odd)) - 1)
        return weighted((w, wf_spec()), (1, odd_spec(cfg.reset, cfg.unknown, cfg.multi, cfg.invalid, cfg.incomplete)))
    return wf_spec()


def specs(cfg, min_size=1, max_size=3):
    base = st.lists(spec(cfg), min_size=min_size, max_size=max_size)
    nested = st.lists(spec(cfg), min_size=1, max_size=2).map(lambda l: [{'k': 'list', 'v': l}])
    return weighted((5, base), (1, nested))


def ansi_text(cfg):
    """An ANSI-coded constructor argument built from tokens (plain bodies only)."""
    body = st.sampled_from(['', '0', '1', '31', '1;31', '22', '39', '4', '24', '38;5;200', '1;38;5;200', '48;2;1;2;3',
                            '0;1', '31;0', '2', '34', '41', '49', '56', '21', '58;5;9', '59', '3;23', '1;2;22;1', '38;5;300', '48;2;0;0;256', '1;38;5;256'])
    tok = weighted((1, texts(0, 3, esc=False, nonascii=cfg.nonascii)), (2, body.map(lambda b: '\x1b[' + b + 'm')))
    # (one in seven is plain text: parsing it into an object that already holds formatted text must drop the old formatting)
    return weighted((6, st.lists(tok, max_size=7).map(''.join)), (1, texts(0, 4, esc=False, nonascii=cfg.nonascii)))


def text_len(cfg):
    lo, hi = cfg.min_text, cfg.max_text
    mid = st.integers(max(lo, min(3, hi)), hi)
    return weighted((3, mid), (1, st.integers(lo, hi)))


def ctor(cfg):
    # strategies are built once here: constructing them inside the composite costs ~30 ms per draw
    tl = text_len(cfg)
    if cfg.max_text - cfg.min_text > 80:
        # very long texts: a short generated chunk repeated and cut (keeps generation cheap, patterns recur)
        chunk = texts(3, 9, esc=cfg.esc, nonascii=cfg.nonascii, alphabet=cfg.alphabet)
        tx = {n: chunk.map(lambda c, n=n: (c * (n // len(c) + 1))[:n]) for n in range(cfg.min_text, cfg.max_text + 1)}
    else:
        tx = {n: texts(n, n, esc=cfg.esc, nonascii=cfg.nonascii, alphabet=cfg.alphabet) for n in range(cfg.min_text, cfg.max_text + 1)}
    kinds = ['ranges'] * 6 + ['fmt'] if cfg.rich else ['plain', 'fmt', 'ranges', 'ranges', 'ranges', 'ranges']
    kind_s = st.sampled_from(kinds + (['ansi'] if cfg.ansi_ctor else []))
    sp = specs(cfg)
    sp12 = specs(cfg, 1, 2)
    sp_many = specs(cfg, 6, 12)
    at = ansi_text(cfg)
    nr = st.integers(*cfg.nranges) if cfg.nranges else st.integers(2 if cfg.rich else 1, 5 if cfg.rich else 4)
    d10 = st.integers(0, 9)
    d6 = st.integers(0, 5)
    ix = idx(cfg.far, cfg.idx_span)
    top = st.sampled_from([True, True, True, False])
    d3 = st.integers(0, 2)

    @st.composite
    def c(draw):
        n = draw(tl)
        t = draw(tx[n])
        kind = draw(kind_s)
        if kind == 'plain':
            return {'k': 'plain', 't': t}
        if kind == 'fmt':
            return {'k': 'fmt', 't': t, 's': draw(sp_many if (cfg.big and draw(d3) == 0) else sp)}
        if kind == 'ansi':
            return {'k': 'ansi', 't': draw(at)}
        rs = []
        for _ in range(draw(nr)):
            if n > 0 and draw(d10) < 8:
                a = draw(st.integers(0, n - 1))
                b = None if draw(d3) == 0 else draw(st.integers(a + 1, n))
                if draw(d6) == 0:
                    a, b = a - n, (b - n if b is not None and b < n else None)
            else:
                a, b = draw(ix), draw(ix)
            rs.append({'s': draw(sp12), 'a': a, 'b': b, 'top': draw(top)})
        return {'k': 'ranges', 't': t, 'r': rs}
    return c()


ALL_OPS = ['apply', 'remove', 'slice', 'index', 'clip', 'add', 'iadd', 'join', 'ljust', 'rjust', 'center', 'zfill',
           'assign', 'replace', 'strip', 'lstrip', 'rstrip', 'rmprefix', 'rmsuffix', 'case', 'expandtabs', 'split',
           'rsplit', 'splitlines', 'partition', 'rpartition', 'simplify', 'clear', 'copy', 'fmtmatch', 'unfmtmatch',
           'conv']
# ops that keep most of the text/formatting (used more often so values stay interesting)
BUILD_OPS = ['apply', 'apply', 'apply', 'apply', 'apply', 'apply', 'remove', 'remove', 'slice', 'slice', 'clip', 'add', 'add', 'iadd', 'iadd', 'join',
             'ljust', 'rjust', 'center', 'zfill', 'assign', 'replace', 'strip', 'rstrip', 'lstrip', 'rmprefix', 'rmsuffix',
             'case', 'expandtabs', 'split', 'rsplit', 'splitlines', 'partition', 'rpartition', 'copy', 'fmtmatch',
             'unfmtmatch', 'conv', 'index']


RICH_OPS = ['apply'] * 8 + ['remove'] * 3 + ['slice', 'clip', 'add', 'add', 'iadd', 'iadd', 'join', 'ljust', 'rjust', 'center',
                                            'zfill', 'replace', 'case', 'copy', 'fmtmatch', 'unfmtmatch', 'conv', 'rstrip', 'expandtabs']


def small_sub(cfg):
    return texts(0, 2, esc=False, nonascii=False, alphabet=(cfg.alphabet if cfg.alphabet else 'abAB -:\t\n01'))


def operand(cfg, depth):
    opts = [texts(0, 4, esc=cfg.esc, nonascii=cfg.nonascii, alphabet=cfg.alphabet).map(lambda t: {'k': 'str', 't': t})]
    if depth > 0:
        sub = prog(cfg, depth - 1, max_ops=2)
        opts += [sub.map(lambda p: {'k': 'prog', 'p': p}), sub.map(lambda p: {'k': 'prog', 'p': p})]
    opts.append(st.just({'k': 'self'}))
    return st.one_of(*opts)


def op(cfg, depth, names=None, opnd=None):
    names = names or cfg.ops or (RICH_OPS if cfg.rich else BUILD_OPS)
    width = weighted((9, st.integers(0, 16)), (1, st.integers(17, 120))) if not cfg.big else st.integers(0, 150)
    fill = st.sampled_from([' ', ' ', '*', '0', ':', '+', '-', 'é'])
    ip = st.booleans()
    sub = small_sub(cfg)
    opd = opnd if opnd is not None else operand(cfg, depth)
    pa = ''.join(cfg.alphabet) if cfg.alphabet and all(len(x) == 1 for x in cfg.alphabet) else 'abAB -:01'
    table = {
        'apply': st.fixed_dictionaries({'op': st.just('apply'), 's': specs(cfg), 'a': ridx(cfg.far, cfg.idx_span), 'b': ridx(cfg.far, cfg.idx_span),
                                        'top': st.sampled_from([True, True, False])}),
        'remove': st.fixed_dictionaries({'op': st.just('remove'), 's': st.one_of(st.none(), specs(cfg, 1, 2)),
                                         'a': ridx(cfg.far, cfg.idx_span), 'b': ridx(cfg.far, cfg.idx_span)}),
        'slice': st.fixed_dictionaries({'op': st.just('slice'), 'a': ridx(cfg.far, cfg.idx_span), 'b': ridx(cfg.far, cfg.idx_span)}),
        'index': st.fixed_dictionaries({'op': st.just('index'), 'i': st.integers(-12, 12)}),
        'clip': st.fixed_dictionaries({'op': st.just('clip'), 'a': ridx(cfg.far, cfg.idx_span), 'b': ridx(cfg.far, cfg.idx_span), 'ip': ip}),
        'add': st.fixed_dictionaries({'op': st.just('add'), 'x': opd}),
        'iadd': st.fixed_dictionaries({'op': st.just('iadd'), 'x': opd}),
        'join': st.fixed_dictionaries({'op': st.just('join'), 'xs': st.lists(opd, max_size=3)}),
        'ljust': st.fixed_dictionaries({'op': st.just('ljust'), 'w': width, 'f': fill, 'ext': st.booleans(), 'ip': ip}),
        'rjust': st.fixed_dictionaries({'op': st.just('rjust'), 'w': width, 'f': fill, 'ext': st.booleans(), 'ip': ip}),
        'center': st.fixed_dictionaries({'op': st.just('center'), 'w': width, 'f': fill, 'ext': st.booleans(), 'ip': ip}),
        'zfill': st.fixed_dictionaries({'op': st.just('zfill'), 'w': width, 'ip': ip}),
        'assign': st.fixed_dictionaries({'op': st.just('assign'), 't': texts(0, 12, esc=cfg.esc, nonascii=cfg.nonascii)}),
        'replace': st.fixed_dictionaries({'op': st.just('replace'), 'old': weighted((12, texts(1, 2, nonascii=False, alphabet=pa)), (1, st.just({'whole': True}))),
                                          'new': opd, 'n': st.sampled_from([-1, -1, 0, 1, 2]), 'ip': ip}),
        'strip': st.fixed_dictionaries({'op': st.just('strip'), 'c': st.one_of(st.none(), sub), 'ip': ip}),
        'lstrip': st.fixed_dictionaries({'op': st.just('lstrip'), 'c': st.one_of(st.none(), sub), 'ip': ip}),
        'rstrip': st.fixed_dictionaries({'op': st.just('rstrip'), 'c': st.one_of(st.none(), sub), 'ip': ip}),
        'rmprefix': st.fixed_dictionaries({'op': st.just('rmprefix'), 't': sub, 'ip': ip}),
        'rmsuffix': st.fixed_dictionaries({'op': st.just('rmsuffix'), 't': sub, 'ip': ip}),
        'case': st.fixed_dictionaries({'op': st.just('case'), 'm': st.sampled_from(['lower', 'upper', 'title', 'capitalize', 'swapcase', 'casefold']), 'ip': ip}),
        'expandtabs': st.fixed_dictionaries({'op': st.just('expandtabs'), 'n': st.integers(0, 4), 'ip': ip}),
        'split': st.fixed_dictionaries({'op': st.just('split'), 'sep': st.one_of(st.none(), texts(1, 2, nonascii=False, alphabet=pa)),
                                        'n': st.sampled_from([-1, -1, 0, 1, 2]), 'pick': st.integers(0, 5)}),
        'rsplit': st.fixed_dictionaries({'op': st.just('rsplit'), 'sep': st.one_of(st.none(), texts(1, 2, nonascii=False, alphabet=pa)),
                                         'n': st.sampled_from([-1, -1, 0, 1, 2]), 'pick': st.integers(0, 5)}),
        'splitlines': st.fixed_dictionaries({'op': st.just('splitlines'), 'keep': st.booleans(), 'pick': st.integers(0, 5)}),
        'partition': st.fixed_dictionaries({'op': st.just('partition'), 'sep': texts(1, 2, nonascii=False, alphabet=pa), 'pick': st.integers(0, 2)}),
        'rpartition': st.fixed_dictionaries({'op': st.just('rpartition'), 'sep': texts(1, 2, nonascii=False, alphabet=pa), 'pick': st.integers(0, 2)}),
        'simplify': st.just({'op': 'simplify'}),
        'clear': st.just({'op': 'clear'}),
        'copy': st.just({'op': 'copy'}),
        'fmtmatch': st.fixed_dictionaries({'op': st.just('fmtmatch'), 'pat': texts(1, 2, nonascii=False, alphabet=pa + '.'),
                                           's': specs(cfg), 'regex': st.just(False), 'mc': st.booleans(), 'n': st.sampled_from([-1, -1, 1, 2])}),
        'unfmtmatch': st.fixed_dictionaries({'op': st.just('unfmtmatch'), 'pat': texts(1, 2, nonascii=False, alphabet=pa + '.'),
                                             's': st.one_of(st.just([]), specs(cfg, 1, 2)), 'regex': st.just(False), 'mc': st.booleans(),
                                             'n': st.sampled_from([-1, -1, 1, 2])}),
        'conv': st.fixed_dictionaries({'op': st.just('conv'), 'to': st.sampled_from(['S', 's'])}),
        'q_format': st.fixed_dictionaries({'op': st.just('q_format'), 'how': st.integers(0, 2), 'opt': st.booleans(), 'rs': st.booleans(), 're': st.booleans(),
                                           'spec': st.tuples(st.sampled_from(['', '', '*', ' ', '0', ':', '-', '+']), st.sampled_from(['', '', '-', '+']),
                                                             st.sampled_from(['<', '>', '^', '']), st.sampled_from(['', '3', '9', '14']),
                                                             st.sampled_from(['', '', ':red', ':bold;bg_blue', ':underline', ':[1;3'])).map(''.join)}),
        'q_misc': st.fixed_dictionaries({'op': st.just('q_misc'), 'x': opd}),
        'setansi': st.fixed_dictionaries({'op': st.just('setansi'), 't': ansi_text(cfg)}),
        'applymatch': st.fixed_dictionaries({'op': st.just('applymatch'), 'pat': st.sampled_from(['a', 'a(b)?', '(a|b)+', '[A-Z]', ' ', '.', '(.)(.)', 'a*', 'b']),
                                             'g': st.integers(0, 2), 's': specs(cfg, 1, 2)}),
    }
    return st.sampled_from(names).flatmap(lambda n: table[n])


def progs(cfg, depth=1):
    """mix of general programs and programs biased to position-dependent formatting"""
    import copy
    rich = copy.copy(cfg)
    rich.rich = True
    rich.min_text = max(cfg.min_text, 3)
    big = copy.copy(cfg)
    big.rich = True
    big.big = True
    big.min_text = max(cfg.min_text, 20)
    big.max_text = max(cfg.max_text, 60)
    big.idx_span = 70
    big.nranges = (6, 16)
    # beyond CPython's small-int cache (256) and beyond 64 change points
    huge = copy.copy(cfg)
    huge.rich = True
    huge.big = True
    huge.min_text = 258
    huge.max_text = 340
    huge.idx_span = 350
    huge.nranges = (20, 45)
    huge.max_ops = min(cfg.max_ops, 3)
    return weighted((12, prog(cfg, depth)), (24, prog(rich, depth)), (4, prog(big, depth)), (1, prog(huge, max(0, depth - 1))))


def prog_huge(cfg, depth=0):
    """values beyond CPython's small-int cache (text > 256 chars) with 40-90 change points"""
    import copy
    huge = copy.copy(cfg)
    huge.rich = True
    huge.big = True
    huge.min_text = 258
    huge.max_text = 340
    huge.idx_span = 350
    huge.nranges = (20, 45)
    huge.max_ops = min(cfg.max_ops, 3)
    huge.ansi_ctor = False
    return prog(huge, depth)


def prog(cfg, depth=1, max_ops=None):
    max_ops = cfg.max_ops if max_ops is None else max_ops
    cls = st.sampled_from(['S'] * int(round((1 - cfg.cls_s) * 10)) + ['s'] * int(round(cfg.cls_s * 10)) or ['S'])
    return st.fixed_dictionaries({'cls': cls, 'ctor': ctor(cfg), 'ops': st.lists(op(cfg, depth), max_size=max_ops)})


# ---------------------------------------------------------------- small-scope enumeration of values
def small_ranges(n):
    return [(a, b) for a in range(n) for b in range(a + 1, n + 1)]


SMALL_RANGES = small_ranges(3)


def small_steps(names, removes=True, n=3):
    """every apply_formatting(name, a, b, topmost) and remove_formatting(name, a, b) on an n-character text"""
    out = []
    for nm in names:
        for a, b in small_ranges(n):
            for top in (True, False):
                out.append({'op': 'apply', 's': [{'k': 'name', 'v': nm}], 'a': a, 'b': b, 'top': top})
    if removes:
        for nm in names:
            for a, b in small_ranges(n):
                out.append({'op': 'remove', 's': [{'k': 'name', 'v': nm}], 'a': a, 'b': b})
    return out


def small_values(names, depth, text='abc', cls='S'):
    """every value reachable from the plain text by <= depth steps of small_steps() - including histories with
    equal-valued duplicates, inserts below (topmost=False) and removals that leave restart pairs.  A history whose
    first step is a removal is skipped (it equals the shorter one)."""
    import itertools
    steps = small_steps(names, n=len(text))
    for d in range(depth + 1):
        for seq in itertools.product(steps, repeat=d):
            if seq and seq[0]['op'] == 'remove':
                continue
            yield {'cls': cls, 'ctor': {'k': 'plain', 't': text}, 'ops': [dict(x) for x in seq]}


def small_scopes(tier):
    """(names, depth, text) scopes: three names two steps deep, and two conflicting names three steps deep (the shortest
    histories with a below-insert, its removal and a further application) - on 2 characters in the quick tier; the
    thorough tier adds four steps on 2 characters"""
    scopes = [(['red', 'blue', 'bold'], 2, 'abc'), (['red', 'blue'], 3, 'ab' if tier == 'quick' else 'abc')]
    if tier != 'quick':
        scopes.append((['red', 'blue'], 4, 'ab'))   # 70 000 four-step histories (e.g. insert below, remove, apply across, remove)
    if os.environ.get('VERIF_SMALL_EXTRA'):
        # optional, not part of any registered command: five-step histories (1.3 million values; minutes per property)
        scopes = [(['red', 'blue'], 5, 'ab')]
    return scopes
