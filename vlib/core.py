"""Runner infrastructure: sub-checks, sharded Hypothesis campaigns in collect mode, exhaustive
enumerations, JSON shrinker, replay / corpus, known findings, evidence, exit protocol.

A *case* is plain JSON data.  A sub-check has a strategy (or an enumerator) producing cases and a
pure function  evaluate(case) -> Outcome.  The Hypothesis test body never raises on an oracle
mismatch (collect-then-shrink): every failing bucket behind the first one is seen in one campaign;
each bucket's smallest witness is then minimised by the JSON shrinker below and written as the
replay file.
"""
import os, sys, json, time, hashlib, traceback, collections, itertools, multiprocessing

VERIF = os.path.dirname(os.path.dirname(os.path.abspath(__file__)))
REPO = os.environ.get('VERIF_REPO', '/repo')
OUT = os.environ.get('VERIF_OUT', VERIF)   # evidence/ and replays/ go here (mutation runs redirect it)


class HarnessError(Exception):
    pass


STATE = {'truncated': False}   # set when a run had to be cut short (stuck workers were killed)


class Outcome:
    __slots__ = ('fails', 'labels', 'nontrivial', 'key', 'skipped', 'sample')

    def __init__(self):
        self.fails = []        # [(bucket, message)]
        self.labels = []       # label strings (histogram)
        self.nontrivial = False
        self.key = None        # distinctness key (defaults to the case itself)
        self.skipped = None    # reason string if the case was not asserted at all
        self.sample = None     # optional richer description for evidence samples

    def fail(self, bucket, msg=''):
        self.fails.append((bucket, str(msg)[:600]))

    def label(self, *ls):
        self.labels.extend(ls)


class Sub:
    """One sub-check.  Either `strategy` (callable -> hypothesis strategy) or `enumerate`
    (callable(tier) -> iterable of cases; finite, split across workers by index)."""

    def __init__(self, name, evaluate, strategy=None, enumerate=None, quick=300, thorough=4000,
                 shards_quick=8, shards_thorough=16, rule='', exhaustive_note=None):
        self.name = name
        self.evaluate = evaluate
        self.strategy = strategy
        self.enumerate = enumerate
        self.quick = quick
        self.thorough = thorough
        self.shards_quick = shards_quick
        self.shards_thorough = shards_thorough
        self.rule = rule
        self.exhaustive_note = exhaustive_note


def case_hash(x):
    return hashlib.blake2b(json.dumps(x, sort_keys=True, default=str).encode(), digest_size=8).hexdigest()


def _is_lib(fn):
    return '/ansi_string/' in fn and not fn.startswith(VERIF + os.sep)


def lib_frame(exc):
    """Which side raised: walks the traceback from the innermost frame outwards; the first frame
    that belongs to the library or to the harness decides (stdlib frames are skipped, so re.error
    raised by re called from the library counts as 'lib').  Returns (kind, 'file:func')."""
    tb = traceback.extract_tb(exc.__traceback__)
    for f in reversed(tb):
        if _is_lib(f.filename):
            return 'lib', '%s:%s' % (os.path.basename(f.filename), f.name)
        if f.filename.startswith(VERIF + os.sep):
            return 'harness', '%s:%s:%s' % (os.path.basename(f.filename), f.lineno, f.name)
    return 'harness', '?'


def safe_eval(sub, case):
    """evaluate with classification of escaping exceptions."""
    try:
        out = sub.evaluate(case)
    except HarnessError:
        raise
    except Exception as e0:
        if type(e0).__name__ == 'BuilderInvalid':
            # the value builder (constructor / operand program) hit an undocumented library error: that is C09's subject;
            # every other property counts the case and does not assert it
            out = Outcome()
            out.skipped = 'builder_invalid'
            out.label('builder_invalid')
            return out
        if isinstance(e0, RecursionError):
            out = Outcome()
            out.fail('libexc:RecursionError', repr(e0)[:200])
            return out
        e = e0
        kind, where = lib_frame(e)
        if kind == 'harness':
            raise HarnessError('harness exception in %s on case %s:\n%s' % (
                sub.name, json.dumps(case, default=str)[:2000], traceback.format_exc()))
        out = Outcome()
        out.fail('libexc:%s@%s' % (type(e).__name__, where), '%s: %s' % (type(e).__name__, e))
        return out
    return out


class Collector:
    def __init__(self, subname):
        self.sub = subname
        self.evals = 0
        self.labels = collections.Counter()
        self.nontrivial = set()
        self.distinct = set()
        self.samples = []
        self.fails = {}      # bucket -> dict(case,msg,count,size)
        self.skipped = collections.Counter()

    def add(self, case, out):
        self.evals += 1
        for l in out.labels:
            self.labels[l] += 1
        if out.skipped:
            self.skipped[out.skipped] += 1
        h = case_hash(out.key if out.key is not None else case)
        self.distinct.add(h)
        if out.nontrivial and not out.skipped:
            if h not in self.nontrivial:
                self.nontrivial.add(h)
                if len(self.samples) < 3:
                    self.samples.append(out.sample if out.sample is not None else case)
        for bucket, msg in out.fails:
            size = len(json.dumps(case, default=str))
            cur = self.fails.get(bucket)
            if cur is None:
                self.fails[bucket] = dict(case=case, msg=msg, count=1, size=size)
            else:
                cur['count'] += 1
                if size < cur['size']:
                    cur.update(case=case, msg=msg, size=size)

    def result(self):
        return dict(sub=self.sub, evals=self.evals, labels=dict(self.labels),
                    nontrivial=self.nontrivial, distinct=len(self.distinct), samples=self.samples,
                    fails=self.fails, skipped=dict(self.skipped))


def _run_hyp_job(sub, shard, n, seed):
    import hypothesis
    from hypothesis import settings, given, HealthCheck, Phase
    col = Collector(sub.name)

    @hypothesis.seed(seed * 1000003 + shard * 7919 + (int(hashlib.md5(sub.name.encode()).hexdigest()[:6], 16)))
    @settings(max_examples=n, database=None, deadline=None, derandomize=False,
              report_multiple_bugs=False, phases=[Phase.generate],
              suppress_health_check=[HealthCheck.too_slow, HealthCheck.data_too_large,
                                     HealthCheck.large_base_example])
    @given(sub.strategy())
    def t(case):
        col.add(case, safe_eval(sub, case))
    t()
    return col.result()


def _run_enum_job(sub, shard, nshards, tier):
    col = Collector(sub.name)
    for i, case in enumerate(sub.enumerate(tier)):
        if i % nshards != shard:
            continue
        col.add(case, safe_eval(sub, case))
    return col.result()


def _job(args):
    modname, subname, shard, nshards, n, seed, tier = args
    try:
        mod = load_prop(modname)
        sub = [s for s in mod.SUBS if s.name == subname][0]
        t0 = time.time()
        if sub.enumerate is not None:
            r = _run_enum_job(sub, shard, nshards, tier)
        else:
            r = _run_hyp_job(sub, shard, n, seed)
        r['wall'] = time.time() - t0
        return r
    except HarnessError as e:
        return dict(sub=subname, harness_error=str(e))
    except Exception:
        return dict(sub=subname, harness_error=traceback.format_exc())


_PROP_CACHE = {}


def load_prop(pid):
    if pid in _PROP_CACHE:
        return _PROP_CACHE[pid]
    import importlib
    mod = importlib.import_module('props.' + pid.lower())
    _PROP_CACHE[pid] = mod
    return mod


# ---------------------------------------------------------------- JSON shrinker

def _variants(x):
    if isinstance(x, list):
        n = len(x)
        if n > 3:
            yield x[:n // 2]
            yield x[n // 2:]
        for i in range(n):
            yield x[:i] + x[i + 1:]
        for i in range(n):
            for v in _variants(x[i]):
                yield x[:i] + [v] + x[i + 1:]
    elif isinstance(x, dict):
        for k in x:
            if k in ('op', 'k', 'cls', 'kind', 'm'):
                continue
            for v in _variants(x[k]):
                d = dict(x)
                d[k] = v
                yield d
    elif isinstance(x, bool):
        if x:
            yield False
    elif isinstance(x, int):
        if x != 0:
            yield 0
            if abs(x) > 1:
                yield x // 2 if x > 0 else -((-x) // 2)
                yield x - 1 if x > 0 else x + 1
            if x < 0:
                yield -x
    elif isinstance(x, str):
        if x:
            if len(x) > 3:
                yield x[:len(x) // 2]
                yield x[len(x) // 2:]
            for i in range(len(x)):
                yield x[:i] + x[i + 1:]
            for i, ch in enumerate(x):
                if ch not in 'a\x1b[;m0123456789':
                    yield x[:i] + 'a' + x[i + 1:]


def shrink(case, still_fails, budget_s=10.0):
    t0 = time.time()
    best = case
    improved = True
    while improved and time.time() - t0 < budget_s:
        improved = False
        for cand in _variants(best):
            if time.time() - t0 > budget_s:
                break
            try:
                ok = still_fails(cand)
            except HarnessError:
                ok = False
            except Exception:
                ok = False
            if ok:
                best = cand
                improved = True
                break
    return best


# ---------------------------------------------------------------- known findings

def load_known():
    p = os.path.join(VERIF, 'known_findings.json')
    if not os.path.exists(p):
        return []
    return json.load(open(p)).get('findings', [])


# ---------------------------------------------------------------- coverage-guided fuzzing (thorough tier)
VT_PY = '/opt/veriftools/pyvenv/bin/python'


def run_fuzz(pid, mod, seed):
    """Runs the atheris targets declared by the module (mod.FUZZ) as parallel libFuzzer campaigns: half of them from an
    empty corpus, half from the module's seed inputs.  Returns (fails, summary)."""
    import subprocess, shutil
    specs = getattr(mod, 'FUZZ', [])
    if not specs:
        return [], None
    if not os.path.exists(VT_PY):
        return [], {'atheris': 'unavailable (no tooling venv)'}
    probe = subprocess.run([VT_PY, '-c', 'import atheris, hypothesis'], capture_output=True)
    if probe.returncode != 0:
        return [], {'atheris': 'unavailable (import failed)'}
    work = os.path.join(OUT, '.work', 'fuzz', pid)
    shutil.rmtree(work, ignore_errors=True)
    procs = []
    for sp in specs:
        for sh in range(sp.get('shards', 4)):
            od = os.path.join(work, sp['sub'], 'out%d' % sh)
            cd = os.path.join(work, sp['sub'], 'corpus%d' % sh)
            os.makedirs(od)
            os.makedirs(cd)
            seeded = sh % 2 == 1
            if seeded:
                for i, b in enumerate(sp.get('seeds', [])):
                    open(os.path.join(cd, 'seed%d' % i), 'wb').write(b)
            env = dict(os.environ, PYTHONHASHSEED='0', PYTHONDONTWRITEBYTECODE='1')
            cmd = [VT_PY, os.path.join(VERIF, 'fuzz', 'target.py'), pid, sp['sub'], od, '-runs=%d' % sp['runs'],
                   '-seed=%d' % (seed * 100 + sh + 1), '-max_len=%d' % sp.get('max_len', 48), '-print_final_stats=0', cd]
            procs.append((sp, sh, seeded, od, subprocess.Popen(cmd, stdout=subprocess.DEVNULL, stderr=subprocess.DEVNULL, env=env)))
    fails = []
    summary = {'atheris': 'ok', 'campaigns': []}
    for sp, sh, seeded, od, pr in procs:
        try:
            rc = pr.wait(timeout=sp.get('timeout', 1500))
            trunc = False
        except Exception:
            pr.kill()
            rc = None
            trunc = True
        st = {}
        try:
            st = json.load(open(os.path.join(od, 'stats.json')))
        except Exception:
            pass
        summary['campaigns'].append({'sub': sp['sub'], 'shard': sh, 'corpus': 'seeded' if seeded else 'empty', 'exit': rc, 'truncated': trunc,
                                     'execs': st.get('execs', 0), 'distinct_nontrivial': st.get('nontrivial', 0), 'fails': st.get('fails', 0),
                                     'samples': st.get('samples', [])[:2]})
        fp = os.path.join(od, 'fails.jsonl')
        if os.path.exists(fp):
            for line in open(fp):
                r = json.loads(line)
                fails.append(('fuzz:' + r['sub'], r['bucket'], r['case'], r['msg']))
    shutil.rmtree(work, ignore_errors=True)
    return fails, summary


# ---------------------------------------------------------------- main driver

def run_property(pid, tier, seed, replay=None, only_sub=None, scale=1.0):
    t0 = time.time()
    mod = load_prop(pid)
    from vlib import sgrterm
    try:
        sgrterm.self_test()
        if hasattr(mod, 'self_test'):
            mod.self_test()
    except Exception:
        print('HARNESS-ERROR oracle self-test failed\n' + traceback.format_exc())
        return 2
    subs = {s.name: s for s in mod.SUBS}

    if replay:
        data = json.load(open(replay))
        sub = subs[data['sub']]
        out = safe_eval(sub, data['case'])
        if out.fails:
            for b, m in out.fails:
                print('REPLAY-FAIL property=%s sub=%s bucket=%s: %s' % (pid, sub.name, b, m))
            print('VIOLATION property=%s replay=%s' % (pid, replay))
            return 1
        print('REPLAY-PASS property=%s sub=%s%s' % (pid, sub.name,
              (' (skipped: %s)' % out.skipped) if out.skipped else ''))
        return 0

    violations = []   # (sub, bucket, case, msg)
    known_lines = []
    known = [k for k in load_known() if k.get('property') == pid and k.get('status') == 'known']
    # replay tier: committed corpus first
    corpus_dir = os.path.join(VERIF, 'corpus', pid)
    corpus_n = 0
    # (VERIF_NO_CORPUS=1: measure what the generators find on their own - used by the sensitivity tools only)
    if os.path.isdir(corpus_dir) and not os.environ.get('VERIF_NO_CORPUS'):
        for fn in sorted(os.listdir(corpus_dir)):
            if not fn.endswith('.json'):
                continue
            data = json.load(open(os.path.join(corpus_dir, fn)))
            sub = subs.get(data['sub'])
            if sub is None:
                continue
            corpus_n += 1
            out = safe_eval(sub, data['case'])
            for b, m in out.fails:
                violations.append((sub.name, b, data['case'], 'corpus %s: %s' % (fn, m)))
    # known-finding witnesses
    for k in known:
        sub = subs.get(k['sub'])
        if sub is None:
            continue
        out = safe_eval(sub, k['witness'])
        if any(b == k['bucket'] for b, _ in out.fails):
            known_lines.append('KNOWN-FINDING: property=%s %s' % (pid, k['what']))

    jobs = []
    for s in mod.SUBS:
        if only_sub and s.name != only_sub:
            continue
        if s.enumerate is not None:
            ns = 16
            for sh in range(ns):
                jobs.append((pid, s.name, sh, ns, 0, seed, tier))
        else:
            ns = s.shards_quick if tier == 'quick' else s.shards_thorough
            n = s.quick if tier == 'quick' else s.thorough
            n = max(1, int(n * scale * (getattr(mod, 'QUICK_SCALE', 2.0) if tier == 'quick' else 1.0)))
            for sh in range(ns):
                jobs.append((pid, s.name, sh, ns, n, seed, tier))
    ctx = multiprocessing.get_context('fork')
    nproc = int(os.environ.get('VERIF_PROCS', '16'))
    # a worker that dies (killed, out of memory, interpreter crash) must end the run as a harness error, not hang it
    import concurrent.futures as cf
    budget = float(os.environ.get('VERIF_TIMEOUT', '900' if tier == 'quick' else '5400'))
    results = []
    ex = cf.ProcessPoolExecutor(max_workers=min(nproc, max(1, len(jobs))), mp_context=ctx)
    try:
        futs = [ex.submit(_job, j) for j in jobs]
        done, pending = cf.wait(futs, timeout=budget)
        if pending:
            # keep what the finished jobs found; the run as a whole is truncated (inconclusive unless a violation was found)
            print('TRUNCATED %d of %d jobs did not finish within %.0f s: %s' % (
                len(pending), len(futs), budget, sorted(set('%s' % (j[1],) for j, f in zip(jobs, futs) if f in pending))))
            sys.stdout.flush()
            STATE['truncated'] = True
            for f in pending:
                f.cancel()
            procs = list((getattr(ex, '_processes', None) or {}).values())
            for f in futs:
                if f in done:
                    results.append(f.result())
            for pr in procs:
                try:
                    pr.kill()
                except Exception:
                    pass
        else:
            for f in futs:
                results.append(f.result())
    except cf.process.BrokenProcessPool:
        print('HARNESS-ERROR a worker process died (killed or crashed); inconclusive, not a violation')
        return 2
    finally:
        try:
            ex.shutdown(wait=False, cancel_futures=True)
        except Exception:
            pass

    fuzz_fails, fuzz_summary = ([], None)
    if tier == 'thorough' and not only_sub:
        fuzz_fails, fuzz_summary = run_fuzz(pid, mod, seed)

    herr = [r for r in results if 'harness_error' in r]
    if herr:
        for r in herr[:3]:
            print('HARNESS-ERROR sub=%s\n%s' % (r['sub'], r['harness_error']))
        return 2

    per_sub = {}
    for r in results:
        a = per_sub.setdefault(r['sub'], dict(evals=0, labels=collections.Counter(), nontrivial=set(),
                                                distinct=0, samples=[], fails={}, skipped=collections.Counter(),
                                                wall=0.0))
        a['evals'] += r['evals']
        a['labels'].update(r['labels'])
        a['nontrivial'] |= r['nontrivial']
        a['distinct'] += r['distinct']
        a['skipped'].update(r['skipped'])
        a['wall'] = max(a['wall'], r['wall'])
        if len(a['samples']) < 3:
            a['samples'].extend(r['samples'][:3 - len(a['samples'])])
        for b, f in r['fails'].items():
            cur = a['fails'].get(b)
            if cur is None:
                a['fails'][b] = dict(f)
            else:
                cur['count'] += f['count']
                if f['size'] < cur['size']:
                    cur.update(case=f['case'], msg=f['msg'], size=f['size'])

    excluded_known = collections.Counter()
    for sname, a in per_sub.items():
        sub = subs[sname]
        for b, f in sorted(a['fails'].items()):
            kf = [k for k in known if k['sub'] == sname and k['bucket'] == b]
            if kf:
                # a listed finding: only suppressed when the failing case is in the finding's class
                pred = getattr(mod, 'KNOWN_CLASSES', {}).get(kf[0].get('class'))
                if pred is not None and pred(f['case']):
                    excluded_known[kf[0]['id']] += f['count']
                    continue
            violations.append((sname, b, f['case'], f['msg']))

    for fsub, b, case, msg in fuzz_fails:
        violations.append((fsub.split(':', 1)[1], b, case, 'found by atheris: ' + msg))

    # shrink + write replays
    rep_dir = os.path.join(OUT, 'replays', pid)
    vio_lines = []
    seen = set()
    budget = 8.0 if tier == 'quick' else 40.0
    for sname, b, case, msg in violations:
        if (sname, b) in seen:
            continue
        seen.add((sname, b))
        sub = subs[sname]

        def still(c, _b=b, _s=sub):
            return any(bb == _b for bb, _ in safe_eval(_s, c).fails)
        try:
            small = shrink(case, still, budget if len(seen) <= 6 else 1.0)
        except Exception:
            small = case
        out = safe_eval(sub, small)
        m2 = [m for bb, m in out.fails if bb == b]
        os.makedirs(rep_dir, exist_ok=True)
        safe_b = ''.join(ch if ch.isalnum() or ch in '-_.' else '_' for ch in b)[:80]
        path = os.path.join(rep_dir, '%s-%s-%s.json' % (sname, safe_b, case_hash(small)[:8]))
        json.dump(dict(property=pid, sub=sname, bucket=b, message=(m2[0] if m2 else msg), case=small),
                  open(path, 'w'), indent=1, default=str)
        vio_lines.append('VIOLATION property=%s replay=%s' % (pid, path))
        print('  sub=%s bucket=%s: %s' % (sname, b, (m2[0] if m2 else msg)[:300]))

    # evidence
    evals = sum(a['evals'] for a in per_sub.values()) + corpus_n + (sum(c['execs'] for c in fuzz_summary['campaigns']) if fuzz_summary and 'campaigns' in fuzz_summary else 0)
    nontriv = sum(len(a['nontrivial']) for a in per_sub.values())
    samples = []
    for sname, a in per_sub.items():
        for smp in a['samples'][:2]:
            samples.append(dict(sub=sname, case=smp))
    exhaustive_subs = {s.name: s.exhaustive_note for s in mod.SUBS if s.enumerate is not None}
    ev = dict(
        property_id=pid, tier=tier, seed=seed, level='exploration',
        coverage=dict(
            evaluations=evals, distinct_nontrivial=nontriv,
            rule=getattr(mod, 'RULE', ''),
            samples=samples[:12],
            exhaustive=False,
            exhaustive_subdomains={k: dict(note=v, cases=per_sub[k]['evals']) for k, v in exhaustive_subs.items() if k in per_sub},
            per_sub={k: dict(evaluations=a['evals'], distinct=a['distinct'], distinct_nontrivial=len(a['nontrivial']),
                             labels=dict(a['labels'].most_common(40)), not_asserted=dict(a['skipped']),
                             wall_s=round(a['wall'], 2), rule=subs[k].rule)
                     for k, a in per_sub.items()},
            corpus_replayed=corpus_n,
            truncated=STATE['truncated'],
            coverage_guided_fuzzing=fuzz_summary,
            excluded_by_known=dict(excluded_known),
            known_findings_reported=known_lines,
        ),
        assumptions=getattr(mod, 'ASSUMPTIONS', []),
        wall_s=round(time.time() - t0, 2),
        violations=len(vio_lines),
    )
    os.makedirs(os.path.join(OUT, 'evidence'), exist_ok=True)
    json.dump(ev, open(os.path.join(OUT, 'evidence', pid + '.json'), 'w'), indent=1, default=str)

    for l in known_lines:
        print(l)
    print('%s tier=%s seed=%d evaluations=%d distinct_nontrivial=%d violations=%d wall=%.1fs' % (
        pid, tier, seed, evals, nontriv, len(vio_lines), time.time() - t0))
    for sname, a in per_sub.items():
        print('   %-22s evals=%-7d nontrivial=%-6d skipped=%s' % (sname, a['evals'], len(a['nontrivial']), dict(a['skipped']) or ''))
    for l in vio_lines:
        print(l)
    if vio_lines:
        return 1
    if STATE['truncated']:
        print('HARNESS-ERROR run truncated by the time budget without a violation: inconclusive')
        return 2
    return 0
