#!/opt/veriftools/pyvenv/bin/python
"""atheris (libFuzzer) target with the semantic oracle inside.

usage: target.py <PID> <SUB> <OUTDIR> [libFuzzer args...]
Bytes are decoded into the same JSON cases the Hypothesis sub-check evaluates; the property's own
evaluate() is the oracle.  Failures are recorded (first case per bucket, appended to OUTDIR/fails.jsonl)
and fuzzing continues, so one campaign sees every bucket; OUTDIR/stats.json is rewritten periodically
(libFuzzer exits the process without running atexit handlers)."""
import sys, os, json

VERIF = os.path.dirname(os.path.dirname(os.path.abspath(__file__)))
REPO = os.environ.get('VERIF_REPO', '/repo')
sys.path.insert(0, VERIF)
sys.path.insert(0, os.path.join(REPO, 'src'))
sys.dont_write_bytecode = True

import atheris  # noqa

with atheris.instrument_imports(include=['ansi_string']):
    import ansi_string  # noqa

ansi_string.AnsiString.WITH_ASSERTIONS = True
from vlib import core  # noqa

A19 = ['\x1b[', '\x1b', '[', '0', '1', ';', '?', ' ', 'm', 'A', 'H', 'J', '~', '@', 'x', 'é', '\n', '38;5;', '2']
A02 = ['\x1b[', 'm', ';', '0', '1', '2', '3', '4', '5', '8', '9', '38', '48', '58', '22', '39', 'a', 'b', ' ', '[', 'K', '\x1b', '255', '256', ':', 'é']
A15 = ['0', '1', '2', '3', '4', '5', '8', '9', ';', ' ', ':', '<', '=', '>', '?', 'm', '@', '~', '[', '_', 'A', '38', '48', '58', '255', '256']
A18 = ['0', '1', '2', '4', '22', '24', '31', '39', '38', '48', '58', '5', '200', '56', '99', '256', '3', '7', '21', '10', '11', '59', '49', '255', '', 'x', ' 1']


def dec_string(alpha):
    def f(data):
        return {'s': ''.join(alpha[b % len(alpha)] for b in data[:48])}
    return f


def dec_text(data):
    return {'t': ''.join(A15[b % len(A15)] for b in data[:24])}


def dec_codes(data):
    if not data:
        return {'toks': [], 'form': 'str', 'ae': False, 'old': []}
    h = data[0]
    toks = [A18[b % len(A18)] for b in data[1:17]]
    old = [A18[b % 24] for b in data[17:23]]
    if any(t.strip() == '' or not t.strip().isdigit() for t in old):
        old = []
    return {'toks': toks, 'form': ['str', 'ints', 'strs', 'mixed'][h % 4], 'ae': bool(h & 4), 'old': old}


DECODERS = {
    ('C19', 'parse_free'): dec_string(A19),
    ('C02', 'free'): dec_string(A02),
    ('C15', 'texts_generated'): dec_text,
    ('C18', 'lists_generated'): dec_codes,
}


def main():
    pid, subname, outdir = sys.argv[1], sys.argv[2], sys.argv[3]
    os.makedirs(outdir, exist_ok=True)
    mod = core.load_prop(pid)
    sub = [s for s in mod.SUBS if s.name == subname][0]
    dec = DECODERS[(pid, subname)]
    stats = {'execs': 0, 'nontrivial': 0, 'fails': 0, 'buckets': {}, 'samples': []}
    seen = set()
    fails_path = os.path.join(outdir, 'fails.jsonl')

    def flush():
        with open(os.path.join(outdir, 'stats.json'), 'w') as f:
            json.dump(stats, f)

    def one(data):
        case = dec(data)
        out = core.safe_eval(sub, case)
        stats['execs'] += 1
        if out.nontrivial and not out.skipped:
            h = core.case_hash(case)
            if h not in seen:
                seen.add(h)
                stats['nontrivial'] += 1
                if len(stats['samples']) < 5:
                    stats['samples'].append(case)
        for b, m in out.fails:
            stats['fails'] += 1
            if b not in stats['buckets']:
                stats['buckets'][b] = 0
                with open(fails_path, 'a') as f:
                    f.write(json.dumps({'sub': subname, 'bucket': b, 'case': case, 'msg': m}) + '\n')
            stats['buckets'][b] += 1
        if stats['execs'] % 5000 == 0:
            flush()
    flush()
    atheris.Setup([sys.argv[0]] + sys.argv[4:], one)
    atheris.Fuzz()


if __name__ == '__main__':
    main()
