#!/venv/bin/python
"""Runner:  check.py <ID> [--tier quick|thorough] [--replay FILE] [--sub NAME] [--scale F]

exit 0 = property held on everything explored (KNOWN-FINDING lines possible)
exit 1 = violation(s): one line  VIOLATION property=<id> replay=<path>  per bucket
exit 2 = harness error (import failure, oracle self-test failure, harness exception)
"""
import os, sys

VERIF = os.path.dirname(os.path.abspath(__file__))


def main():
    if os.environ.get('PYTHONHASHSEED') != '0':
        os.environ['PYTHONHASHSEED'] = '0'
        os.environ['PYTHONDONTWRITEBYTECODE'] = '1'
        os.execv(sys.executable, [sys.executable] + sys.argv)
    import argparse
    ap = argparse.ArgumentParser()
    ap.add_argument('pid')
    ap.add_argument('--tier', default=os.environ.get('VERIF_TIER', 'quick'), choices=['quick', 'thorough'])
    ap.add_argument('--replay')
    ap.add_argument('--sub')
    ap.add_argument('--scale', type=float, default=1.0)
    a = ap.parse_args()
    try:
        seed = int(os.environ.get('VERIF_SEED', '1'))
    except ValueError:
        seed = 1
    repo = os.environ.get('VERIF_REPO', '/repo')
    src = os.path.join(repo, 'src')
    sys.path.insert(0, VERIF)
    sys.path.insert(0, src)
    sys.dont_write_bytecode = True
    os.chdir(VERIF)
    try:
        import ansi_string
        if not os.path.abspath(ansi_string.__file__).startswith(os.path.abspath(src)):
            print('HARNESS-ERROR ansi_string imported from %s, not from %s' % (ansi_string.__file__, src))
            return 2
        import hypothesis  # noqa
    except Exception as e:
        import traceback
        print('HARNESS-ERROR import failed\n' + traceback.format_exc())
        return 2
    ansi_string.AnsiString.WITH_ASSERTIONS = True
    from vlib import core
    try:
        rc = core.run_property(a.pid.upper(), a.tier, seed, replay=a.replay, only_sub=a.sub, scale=a.scale)
        if core.STATE['truncated']:
            sys.stdout.flush()
            os._exit(rc)   # stuck workers were killed: skip the executor's exit hooks
        return rc
    except core.HarnessError as e:
        print('HARNESS-ERROR %s' % e)
        return 2
    except Exception:
        import traceback
        print('HARNESS-ERROR\n' + traceback.format_exc())
        return 2


if __name__ == '__main__':
    sys.exit(main())
