#!/bin/bash
# runs every mutant listed in mutants/MAP.tsv against its checks (quick tier) and writes mutants/RESULTS.md
cd /verif
OUT=mutants/RESULTS.md
echo "# Mutant runs ($(date -u +%F)) - quick tier, VERIF_SEED=${VERIF_SEED:-1}" > $OUT
echo >> $OUT
echo '| mutant | check | result |' >> $OUT
echo '|---|---|---|' >> $OUT
while IFS=$'\t' read -r m checks; do
  [ -z "$m" ] && continue
  tools/mutant.sh mutants/$m $checks | while read -r line; do
     chk=$(echo "$line" | sed -n 's/.*check=\([A-Z0-9]*\).*/\1/p'); rc=$(echo "$line" | sed -n 's/.*exit=\([0-9]*\).*/\1/p')
     b=$(echo "$line" | sed -n 's/.*bucket=\([^:]*:\?[^ ]*\).*/\1/p' | cut -c1-60)
     if [ -z "$chk" ]; then echo "| $m | - | $line |" >> $OUT; else
     echo "| $m | $chk | $([ "$rc" = 1 ] && echo "detected ($b)" || echo "NOT detected (exit $rc)") |" >> $OUT; fi
  done
done < mutants/MAP.tsv
cat $OUT
