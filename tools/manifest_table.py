# table consumed by tools/mkmanifest.py
NOT_APPLICABLE = {}
NOTE = ('Trusted base: the reference SGR terminal vlib/sgrterm.py (self-tested on hand-computed vectors at every start), '
        'CPython str/re/format as differential oracles, Hypothesis as generator, the interpreter vlib/interp.py that turns JSON cases '
        'into public API calls. Exploration only: no absence claim beyond the sub-domains recorded as exhaustive in the evidence file. '
        'Ambiguity classes listed in DESIGN.md section 3 are generated but not asserted.')
PBT = 'property-based testing (Hypothesis-generated JSON cases, collect-then-shrink): '

add('C01', PBT + 'rendering of generated program values under all 8 flag combinations interpreted by an independent reference SGR terminal; exhaustive enumeration of style-state bridges',
    'Generated reachable values (constructor + up to 5 operations, nested operands) are rendered under every optimize/reset_start/reset_end combination and interpreted by a reference terminal written from ECMA-48: displayed text, per-character style, optimize equivalence, reset_start independence from prior state and reset_end are compared with what the object reports. Every ordered pair of ~66 style states (all effect groups, set/changed/cleared) is enumerated in 4 layouts x 8 flags.',
    NOTE, 'DESIGN.md section 3 C01')
add('C02', PBT + 'token-grammar and free-form input strings plus exhaustive small token strings, parsed and compared with an independent terminal interpretation',
    'Input strings from a token grammar (SGR bodies with extended-colour groups at any position, non-SGR and unterminated sequences), free-form strings and all token strings up to length 5/6 are parsed by both classes; base text and per-character effective style are compared with the reference terminal run on the raw input.',
    NOTE, 'DESIGN.md section 3 C02')
add('C03', PBT + 'round-trip and metamorphic relations (render -> parse, simplify idempotence and fixed point) over generated program values',
    'For generated reachable values: AnsiString(str(v)) keeps text and per-character effective style; simplify keeps both, leaves only valid parsable settings, is idempotent on the rendering and yields a parse/render fixed point.',
    NOTE, 'DESIGN.md section 3 C03')
add('C04', PBT + 'generated values x generated and exhaustively enumerated slice bounds against Python slice semantics on the base text and the per-character settings table',
    'Slices, integer indices, clip, iteration and step handling of generated values are compared character by character with the source (settings multiset and per-effect-group precedence) and each result is checked to be closed at its end; one sub-check enumerates all (start, stop) pairs per value, another every value of a small scope (<=2/<=3 apply-remove steps on 2-3 characters) x all bounds; base texts may contain escape sequences.',
    NOTE, 'DESIGN.md section 3 C04')
add('C05', PBT + 'generated operand pairs incl. a seam-forcing generator; +, +=, join and split-and-rejoin at every k compared with the operands\' own per-character settings and, for rejoin, display identity on the reference terminal',
    'Concatenation results are compared per character with snapshots of the operands taken before the call, for all seam configurations the implementation merges (equal, prefix, permuted, extended, staggered stops); join is compared with the left fold of +; s[:k]+s[k:] for every k is compared with s; exhaustive sub-checks enumerate small seam configurations (every stop vector) and every split point of every small-scope value; a sequence split across the seam stays text.',
    NOTE, 'DESIGN.md section 3 C05')
add('C06', PBT + 'before/after snapshots with setting identities around apply_formatting over generated values, ranges, settings and both topmost modes',
    'Text, outside-range settings, inside-range multiset (old + given), precedence of old settings, and the displayed value of the effects involved (topmost=False: existing effects unchanged; topmost=True: new settings on top until another setting begins) are checked on the reference terminal; one sub-check enumerates every value of a small scope (<=2/<=3 apply-remove steps on 2-3 characters) x every call of that scope.',
    NOTE, 'DESIGN.md section 3 C06')
add('C07', PBT + 'before/after comparison around remove_formatting / clear_formatting over generated values, selections picked from the value, and ranges',
    'Inside the range the reported list must equal the previous list minus the selected texts in the same order; outside it settings and precedence must be unchanged; empty ranges are no-ops; clear_formatting leaves no settings and the text as it is; one sub-check enumerates every value of a small scope x every removal of that scope.',
    NOTE, 'DESIGN.md section 3 C07')
add('C08', PBT + 'stateful / model-based: generated operation histories over a register file of live values with a snapshot invariant after every step',
    'Histories of 3-30 public operations (in-place and non-in-place forms, binary operations between any live values incl. a value with itself) are executed; after each step every live value other than an in-place receiver must have an identical snapshot, settings lists must be unchanged, in-place calls must return the receiver and equal the non-in-place twin, results must not alias live values.',
    NOTE, 'DESIGN.md section 3 C08')
add('C09', PBT + 'stateful generation with a wide (hostile) argument domain; termination as a deterministic line-event bound; error-type discipline, atomic failure and a consistency invariant after every step',
    'Histories mixing ordinary operations with empty / zero / negative / huge / invalid / wrongly typed arguments; each call must finish within a line-event bound, succeed or raise a documented error type, leave all live values unchanged on error, and leave every live value answering all queries, renderings, slices, concatenations and copies with the library self-check enabled.',
    NOTE, 'DESIGN.md section 3 C09')
add('C10', PBT + 'differential testing against str on the base text for every str-like method with generated arguments',
    'Every listed query and transforming method of both classes is called with generated texts and arguments and compared (value or exception type) with str, the documented deviations being applied to the expected side; base texts include ones with escape sequences stored unparsed, replacements may carry SGR sequences (parsed, as documented).',
    NOTE, 'DESIGN.md section 3 C10')
add('C11', PBT + 'pieces / edited results compared with the original at true offsets computed independently from the str result',
    'For values with position-dependent formatting over a small alphabet, every piece of split/rsplit/splitlines/partition/strip/removeprefix/suffix, case conversions, assign_str, replace (plain and formatted replacements, reused over matches) and expandtabs is compared character by character with the original at its true offset.',
    NOTE, 'DESIGN.md section 3 C11')
add('C12', PBT + 'padding methods against format() and the statement\'s fill-style rule; format specs against an independent enumerator of all parses of the documented grammar',
    'ljust/rjust/center/zfill: text equals format(), original characters keep their settings, fill characters are styled only when extending, results are closed. Specs: an independent parser enumerates every parse of the documented grammar; the output must equal (string or display-identical) pad-then-apply on a copy for some parse, ValueError exactly when no parse exists.',
    NOTE, 'DESIGN.md section 3 C12')
add('C13', PBT + 'differential (twin) execution of generated operation sequences on AnsiString and AnsiStr; constructor matrix; payload equality through str.__str__, %s, file.write',
    'The same operation sequence is applied step by step to an AnsiString copy and to its AnsiStr twin; text, settings, 8 renderings, format() under several specs, result types and scalar queries must agree after every step; every AnsiStr produced must have a str payload equal to its rendering.',
    NOTE, 'DESIGN.md section 3 C13')
add('C14', PBT + 'exhaustive enumeration of all AnsiFormat names x spellings and all codes 0..255; generated helper arguments and nested structures; fixed error table',
    'All 800 names x 14 spellings x 3 entry points, all codes as int/str/padded/verbatim, rgb/color256 helpers and string forms against an own formula, nested lists/tuples against in-order flattening, and an error table (unknown names, negative ints, malformed rgb/colour strings, unsupported types, self-containing lists).',
    NOTE, 'DESIGN.md section 3 C14')
add('C15', PBT + 'exhaustive small-alphabet and generated setting texts classified by an independent grammar; conjunction and rendering well-formedness over generated values',
    'valid/parsable of fresh AnsiSetting objects (both query orders, repeated) against an own grammar for all texts over a 9-symbol alphabet up to length 5/6 and generated near-misses; is_formatting_valid/parsable as conjunction over settings in use; renderings of valid values strip to the base text and contain every setting intact.',
    NOTE, 'DESIGN.md section 3 C15')
add('C16', PBT + 'format_matching/unformat_matching against a fold of apply/remove over re.finditer matches on a copy',
    'For generated values, patterns (plain with metacharacters, valid regexes incl. empty matches), case flag, counts and settings, the object state must equal the fold of apply_formatting/remove_formatting over the first count re matches; characters outside matches unchanged.',
    NOTE, 'DESIGN.md section 3 C16')
add('C17', PBT + 'find_settings / ansi_settings_at / settings_at against the per-character settings table, generated and exhaustively enumerated ranges',
    'ansi_settings_at outside the text, settings_at as join, and find_settings (forward and reverse) are checked against the table of per-character settings for generated and, per value, all (start, end) ranges.',
    NOTE, 'DESIGN.md section 3 C17')
add('C18', PBT + 'exhaustive code lists over a 16-symbol alphabet up to length 4/5 and generated lists, reduced with settings_to_dict and compared with the reference terminal',
    'parse_graphic_sequence + settings_to_dict must reach the reference terminal state for every code list (str / int list / str list / mixed; blanks, leading zeros), with add_erroneous=True keeping every integer token in order; settings_to_dict on prior states; arguments not modified.',
    NOTE, 'DESIGN.md section 3 C18')
add('C19', PBT + 'exhaustive small-scope enumeration + Hypothesis generation against an independent CSI tokeniser and a re-insertion round trip',
    'Every string over a 6-symbol core alphabet up to length 5 (quick) / 7 (thorough) and generated longer strings are parsed under 8 flag combinations and compared with an independent tokeniser; losslessness (re-insertion, formatted_str, str, repr) is asserted for every string; each helper is checked against its documented final byte for generated integers.',
    NOTE, 'DESIGN.md section 3 C19')
