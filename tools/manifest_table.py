# table consumed by tools/mkmanifest.py
NOT_APPLICABLE = {}
NOTE = ('Trusted base: the reference SGR terminal vlib/sgrterm.py (self-tested on hand-computed vectors at every start), '
        'CPython str/re as differential oracles, Hypothesis as generator. Exploration only: no absence claim beyond the '
        'sub-domains recorded as exhaustive in the evidence file.')

add('C19', 'property-based testing: exhaustive small-scope enumeration + Hypothesis generation against an independent CSI tokeniser and a re-insertion round trip',
    'Every string over a 6-symbol core alphabet up to length 5 (quick) / 7 (thorough) and tens of thousands of generated longer strings are parsed under 8 flag combinations and compared with an independent tokeniser; losslessness (re-insertion, formatted_str, str, repr) is asserted for every string; each helper is checked against its documented final byte for generated integers.',
    NOTE, 'DESIGN.md section 3 C19')
