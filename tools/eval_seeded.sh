#!/bin/bash
# usage: [AS=<stored index>] tools/eval_seeded.sh <outdir of agent | stored> <PID> <i> <check> [<check>...]
# Confirms a seeded change (applies, test-suite green, demo fails with / passes without), stores it under
# /verif/seeded/<PID>-<i>/ and runs the given checks against it in a scratch copy.
set -u
SRC=$1; PID=$2; I=$3; shift 3
D=/verif/seeded/$PID-${AS:-$I}
mkdir -p $D
if [ "$SRC" != stored ]; then cp $SRC/patch$I.diff $D/patch.diff; cp $SRC/demo$I.py $D/demo.py; cp $SRC/meta$I.json $D/agent_meta.json 2>/dev/null; fi
W=$(mktemp -d /var/tmp/seed.XXXXXX)
trap 'rm -rf "$W"' EXIT
rsync -a --exclude .git --exclude '__pycache__' --exclude _out /repo/ "$W/repo/"
rsync -a --exclude .git --exclude '__pycache__' --exclude _out /repo/ "$W/clean/"
applies=yes; (cd "$W/repo" && patch -p1 -s --no-backup-if-mismatch < $D/patch.diff) || applies=no
tests=$(cd "$W/repo" && PYTHONPATH="$W/repo/src" PYTHONDONTWRITEBYTECODE=1 /venv/bin/python -m pytest -q -p no:cacheprovider 2>&1 | tail -1)
PYTHONDONTWRITEBYTECODE=1 /venv/bin/python $D/demo.py "$W/repo" >"$W/demo_mut.log" 2>&1; dm=$?
PYTHONDONTWRITEBYTECODE=1 /venv/bin/python $D/demo.py "$W/clean" >"$W/demo_clean.log" 2>&1; dc=$?
echo "SEEDED $PID-${AS:-$I} applies=$applies tests='$tests' demo_with_patch_exit=$dm demo_clean_exit=$dc"
res=""
for ID in "$@"; do
  VERIF_REPO="$W/repo" VERIF_OUT="$W/out" /venv/bin/python /verif/check.py "$ID" --tier "${TIER:-quick}" >"$W/$ID.log" 2>&1
  rc=$?
  first=$(grep -m1 'bucket=' $W/$ID.log | cut -c1-260)
  echo "   check=$ID exit=$rc $first"
  # keep up to two shrunk failing cases as committed regression cases (they must pass on the unchanged tree)
  n=0
  for rp in "$W"/out/replays/$ID/*.json; do
    [ -f "$rp" ] || continue
    [ $n -ge 2 ] && break
    if /venv/bin/python /verif/check.py $ID --replay "$rp" >/dev/null 2>&1; then
      mkdir -p /verif/corpus/$ID
      cp "$rp" /verif/corpus/$ID/seeded-$PID-${AS:-$I}-$n.json
      n=$((n+1))
    fi
  done
  res="$res{\"check\":\"$ID\",\"tier\":\"${TIER:-quick}\",\"exit\":$rc,\"first\":$(/venv/bin/python -c 'import json,sys;print(json.dumps(sys.argv[1]))' "$first")},"
done
/venv/bin/python - "$D" "$PID" "$applies" "$tests" "$dm" "$dc" "[${res%,}]" <<'PY'
import json,sys,os
d,pid,applies,tests,dm,dc,res=sys.argv[1:8]
am={}
try: am=json.load(open(os.path.join(d,'agent_meta.json')))
except Exception:
    try: am=json.load(open(os.path.join(d,'meta.json')))
    except Exception: pass
meta={'property':am.get('property') or pid,'also':am.get('also'),'summary':am.get('summary'),'needs':am.get('needs'),'files':am.get('files'),
      'confirmed':{'applies':applies=='yes','existing_tests':tests,'demo_exit_with_patch':int(dm),'demo_exit_clean':int(dc)},
      'ran':'tools/eval_seeded.sh: patch applied to a scratch copy of /repo (never to /repo), pinned pytest suite, demo on patched and clean copy, then the listed checks with VERIF_REPO=<scratch>',
      'checks':json.loads(res)}
for k in ('verdict','note'):
    try:
        old=json.load(open(os.path.join(d,'meta.json')))
        if old.get(k): meta[k]=old[k]
    except Exception: pass
json.dump(meta,open(os.path.join(d,'meta.json'),'w'),indent=1)
PY
rm -f $D/agent_meta.json
