#!/venv/bin/python
"""Regenerates MANIFEST.json from the table below (kept here so the manifest stays valid)."""
import json, os, sys
VERIF = os.path.dirname(os.path.dirname(os.path.abspath(__file__)))
PY = '/venv/bin/python'

# id -> (technique, level text, level note, design ref)
CHECKS = {}


def add(pid, technique, text, note, ref):
    CHECKS[pid] = (technique, text, note, ref)


exec(open(os.path.join(VERIF, 'tools', 'manifest_table.py')).read())

props = [json.loads(l) for l in open(os.path.join(VERIF, 'properties.jsonl'))]
checks = []
na = []
for p in props:
    pid = p['id']
    if pid in CHECKS and os.path.exists(os.path.join(VERIF, 'props', pid.lower() + '.py')):
        tech, text, note, ref = CHECKS[pid]
        checks.append({
            'property_id': pid,
            'quick_cmd': '%s check.py %s --tier quick' % (PY, pid),
            'thorough_cmd': '%s check.py %s --tier thorough' % (PY, pid),
            'evidence_file': '/verif/evidence/%s.json' % pid,
            'replay_cmd_template': '%s check.py %s --replay {path}' % (PY, pid),
            'engine': 'pbt-runner',
            'level_claimed': {'category': 'exploration', 'text': text, 'design_ref': ref},
            'level_note': note,
            'technique': tech,
        })
    else:
        na.append({'property_id': pid, 'reason': NOT_APPLICABLE.get(pid, 'check not built yet (work in progress); the technique applies, see DESIGN.md section 3')})

m = {
    'version': 1,
    'setup_cmd': "/venv/bin/python -c 'import hypothesis' 2>/dev/null || /venv/bin/pip install --no-index --find-links /opt/veriftools/wheels hypothesis",
    'hooks': {
        'guard': 'TAILS86_ANSI_STRING_VERIF',
        'enable': 'no source hooks are needed: checks import /repo/src directly and switch on the public class attribute AnsiString.WITH_ASSERTIONS in-process; the guard name is reserved and unused',
        'baseline_off_cmd': 'cd /repo && /venv/bin/python -m pytest -ra -q -p no:cacheprovider --timeout=900 --continue-on-collection-errors',
        'source_commits': [],
        'add_only': True,
    },
    'engines': [
        {'name': 'pbt-runner', 'path': '/verif/check.py', 'serves_properties': [c['property_id'] for c in checks],
         'kind_free_text': 'Hypothesis 6.168 strategies producing JSON cases, evaluated in collect mode by per-property oracles (reference SGR terminal, str/re differentials, metamorphic relations, history invariants); exhaustive small-scope enumerations; own JSON shrinker; sharded over 16 processes'},
    ],
    'checks': checks,
    'not_applicable': na,
    'notes': 'All checks: exit 0 held / exit 1 + VIOLATION line / exit 2 harness error. VERIF_SEED selects the Hypothesis seed. known_findings.json lists recorded (known) and repaired (fixed) defects.',
}
json.dump(m, open(os.path.join(VERIF, 'MANIFEST.json'), 'w'), indent=1)
try:
    import jsonschema
    jsonschema.validate(m, json.load(open('/root/.vp/MANIFEST.schema.json')))
    print('manifest valid;', len(checks), 'checks,', len(na), 'not_applicable')
except ImportError:
    print('written (jsonschema not available to validate);', len(checks), 'checks')
