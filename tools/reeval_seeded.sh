#!/bin/bash
# re-runs every stored seeded change: per-property ones (seeded/C<nn>-<i>) against their own property's check plus the extra checks in
# seeded/EXTRA.tsv; any-property ones (seeded/X*, Y*, Z*) against the property named in their meta.json plus its "also" list.
# usage: tools/reeval_seeded.sh [glob]      e.g. tools/reeval_seeded.sh 'seeded/[XYZ]*'
cd /verif
for d in ${1:-seeded/*-*}; do
  [ -d "$d" ] || continue
  b=$(basename $d); pid=${b%-*}; i=${b#*-}
  case $b in
    C*) checks="$pid $(grep -P "^$b\t" seeded/EXTRA.tsv 2>/dev/null | cut -f2)";;
    *)  checks=$(/venv/bin/python -c "
import json,sys
m=json.load(open('$d/meta.json'))
c=[m.get('property')]+[x for x in (m.get('also') or []) if x not in (m.get('property'),)]
print(' '.join(x for x in c if x))");;
  esac
  tools/eval_seeded.sh stored $pid $i $checks | cut -c1-260
done
