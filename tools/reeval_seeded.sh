#!/bin/bash
# re-runs every stored seeded change against its own property's check (plus extra checks given in seeded/EXTRA.tsv)
cd /verif
for d in seeded/C*-*; do
  b=$(basename $d); pid=${b%-*}; i=${b#*-}
  extra=$(grep -P "^$b\t" seeded/EXTRA.tsv 2>/dev/null | cut -f2)
  tools/eval_seeded.sh stored $pid $i $pid $extra | cut -c1-260
done
