#!/bin/bash
# usage: tools/mutant.sh <patch.diff> <ID> [<ID>...]     (env TIER=quick|thorough, SKIPTESTS=1)
# Applies the patch to a scratch copy of /repo (never to /repo), runs the pinned test-suite there
# (must stay green), runs the given checks against the copy, prints one summary line per check,
# removes the copy.  Evidence/replays of these runs go to the scratch dir, not to /verif.
set -u
PATCH=$(readlink -f "$1"); shift
W=$(mktemp -d /var/tmp/mut.XXXXXX)
trap 'rm -rf "$W"' EXIT
rsync -a --exclude .git --exclude '__pycache__' /repo/ "$W/repo/"
if ! (cd "$W/repo" && patch -p1 -s --no-backup-if-mismatch < "$PATCH"); then echo "MUTANT $(basename $PATCH): patch does not apply"; exit 3; fi
if [ -z "${SKIPTESTS:-}" ]; then
  if ! (cd "$W/repo" && PYTHONPATH="$W/repo/src" PYTHONDONTWRITEBYTECODE=1 /venv/bin/python -m pytest -q -p no:cacheprovider -x >"$W/pytest.log" 2>&1); then
    echo "MUTANT $(basename $PATCH): caught by the existing tests ($(tail -1 $W/pytest.log))"; exit 4; fi
fi
for ID in "$@"; do
  VERIF_REPO="$W/repo" VERIF_OUT="$W/out" /venv/bin/python /verif/check.py "$ID" --tier "${TIER:-quick}" >"$W/$ID.log" 2>&1
  rc=$?
  echo "MUTANT $(basename $PATCH) check=$ID exit=$rc $(grep -c '^VIOLATION' $W/$ID.log) violation line(s); first: $(grep -m1 'bucket=' $W/$ID.log | cut -c1-220)"
  [ -n "${VERBOSE:-}" ] && cat "$W/$ID.log"
  if [ -n "${SAVE_CORPUS:-}" ]; then
    n=0
    for rp in "$W"/out/replays/$ID/*.json; do
      [ -f "$rp" ] || continue
      [ $n -ge 1 ] && break
      if /venv/bin/python /verif/check.py $ID --replay "$rp" >/dev/null 2>&1; then
        mkdir -p /verif/corpus/$ID
        cp "$rp" /verif/corpus/$ID/$(basename $PATCH .diff)-$n.json
        n=$((n+1))
      fi
    done
  fi
done
exit 0
