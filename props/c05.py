"""C05 -- concatenation keeps each operand's per-character styles; no bleed at the seam."""
from hypothesis import strategies as st
from vlib.core import Sub, Outcome
from vlib import gen, sgrterm
from vlib.interp import (Interp, BuilderInvalid, per_char, same_settings, tail_settings, change_points, describe,
                         wellformed, renders, FLAGS8)
from ansi_string import AnsiString, AnsiStr

RULE = ('operand pairs: left = generated program value (AnsiString or AnsiStr), right = generated program value, plain '
        'str, AnsiStr or the left operand itself; a dedicated seam generator builds pairs whose settings at the seam are '
        'equal / a prefix / permuted / extended / stop at different indices; join with 0-5 mixed arguments; '
        'split-and-rejoin at every k. Non-trivial = both operands formatted at the seam (left last char and right '
        'first char report settings) or a rejoin of a value with >=2 change points; distinct by operand snapshots.')
ASSUMPTIONS = ['plain str operands are ESC-free (a str containing escape sequences is parsed by design)',
               'display comparison of rejoined values only for well-formed settings and ESC-free text']

CFG = gen.Cfg(esc=True, odd=0.12, invalid=True, incomplete=False, max_ops=4)


def build(prog, o):
    try:
        return Interp().build_checked(prog)
    except BuilderInvalid:
        o.skipped = 'builder_invalid'
        o.label('builder_invalid')
        return None


def mk_operand(x, a, o):
    k = x['k']
    if k == 'str':
        return x['t']
    if k == 'self':
        return a
    if k == 'bad':
        return [5, None, 1.5, b'x'][x.get('i', 0) % 4]
    return build(x['p'], o)


def seam_label(pa, pb):
    if not pa or not pb:
        return 'seam:empty-operand'
    la, fb = pa[-1], pb[0]
    if not la and not fb:
        return 'seam:plain-plain'
    if not la or not fb:
        return 'seam:one-plain'
    if la == fb:
        return 'seam:equal'
    if sorted(la) == sorted(fb):
        return 'seam:permuted'
    if fb[:len(la)] == la or la[:len(fb)] == fb:
        return 'seam:prefix'
    if set(la) & set(fb):
        return 'seam:overlap'
    return 'seam:different'


def check_concat(o, r, ta, pa, tb, pb, what, cls):
    if type(r).__name__ != cls:
        o.fail('result-type', '%s is %s expected %s' % (what, type(r).__name__, cls))
    if r.base_str != ta + tb:
        o.fail('text', '%s text %r expected %r' % (what, r.base_str, ta + tb))
        return
    pr = per_char(r)
    exp = pa + pb
    for i in range(len(exp)):
        if not same_settings(pr[i], exp[i]):
            o.fail('settings-left' if i < len(pa) else 'settings-right',
                   '%s: char %d reports %r; in its own operand it reported %r' % (what, i, pr[i], exp[i]))
            break
    tl = tail_settings(r)
    if tl != ():
        o.fail('result-not-closed', '%s + "Z": Z reports %r' % (what, tl))


def eval_concat(case):
    o = Outcome()
    a = build(case['a'], o)
    if a is None:
        return o
    b = mk_operand(case['b'], a, o)
    if b is None:
        return o
    if case['b']['k'] == 'bad':
        for nm, f in (('add', lambda: a + b), ('join', lambda: type(a).join(a, b))):
            try:
                f()
                o.fail('bad-operand-accepted', '%s with %r did not raise' % (nm, b))
            except TypeError:
                pass
        o.label('bad-operand')
        return o
    ta, pa = a.base_str, per_char(a)
    if isinstance(b, str) and not isinstance(b, AnsiStr):
        tb, pb = b, [()] * len(b)
        if '\x1b' in b:
            # a plain str operand is read like a constructor argument (documented): its own text / settings are those
            own = AnsiString(b)
            tb, pb = own.base_str, per_char(own)
        bdesc = repr(b)
    else:
        tb, pb = b.base_str, per_char(b)
        bdesc = describe(b)
    cls = type(a).__name__
    what = '%s + %s' % (describe(a), bdesc)
    r = a + b
    check_concat(o, r, ta, pa, tb, pb, what, cls)
    # in-place form
    if isinstance(a, AnsiString):
        a2 = a.copy()
        b2 = a2 if b is a else b
        if b is a:
            tb2, pb2 = ta, pa
        else:
            tb2, pb2 = tb, pb
        a3 = a2
        a3 += b2
        if a3 is not a2:
            o.fail('iadd-not-receiver', what)
        check_concat(o, a3, ta, pa, tb2, pb2, '(+=) ' + what, cls)
        if not (a3 == r):
            o.fail('iadd-differs-from-add', '%s: += gives %s, + gives %s' % (what, describe(a3), describe(r)))
    else:
        a3 = a
        a3 += b
        check_concat(o, a3, ta, pa, tb, pb, '(+=) ' + what, cls)
    j = type(a).join(a, b)
    check_concat(o, j, ta, pa, tb, pb, 'join(%s, %s)' % (describe(a), bdesc), cls)
    lab = seam_label(pa, pb)
    o.label(lab, 'right:' + ('self' if b is a else type(b).__name__))
    o.nontrivial = lab in ('seam:equal', 'seam:permuted', 'seam:prefix', 'seam:overlap', 'seam:different') or bool(case.get('splitseq'))
    o.key = [ta, pa, tb, pb, cls]
    return o


def eval_join(case):
    o = Outcome()
    vals = []
    dummy = AnsiString('')
    for x in case['xs']:
        v = mk_operand(x, dummy, o)
        if v is None:
            return o
        vals.append(v)
    for jcls in (AnsiString, AnsiStr):
        if not vals:
            r = jcls.join()
            if r.base_str != '' or type(r) is not jcls or str(r) != '':
                o.fail('join-empty', '%s.join() = %s' % (jcls.__name__, describe(r)))
            continue
        r = jcls.join(*vals)
        acc = AnsiString(vals[0])
        for v in vals[1:]:
            acc = acc + v
        exp = jcls(acc) if jcls is AnsiStr else acc
        if type(r) is not jcls:
            o.fail('join-type', type(r).__name__)
        if r.base_str != exp.base_str or per_char(r) != per_char(exp) or not (r == exp) or str(r) != str(exp):
            o.fail('join-not-left-fold', '%s.join(%s) = %s; left fold of + = %s' % (
                jcls.__name__, ', '.join(describe(v) if not type(v) is str else repr(v) for v in vals), describe(r), describe(exp)))
    o.nontrivial = sum(1 for v in vals if not type(v) is str and len(v) and any(per_char(v))) >= 2
    o.label('n:%d' % len(vals))
    return o


def eval_rejoin(case):
    o = Outcome()
    v = build(case['p'], o)
    if v is None:
        return o
    t, per = v.base_str, per_char(v)
    wf = wellformed(per) and '\x1b' not in t
    ref = [sgrterm.run(x) for x in renders(v)] if wf else None
    ks = list(range(len(t) + 1))
    if len(t) > 40:
        # long values: every split point on / next to a change point plus an evenly spread sample
        sel = set([0, 1, len(t) - 1, len(t)])
        for i in range(1, len(t)):
            if per[i] != per[i - 1]:
                sel.update([i - 1, i, i + 1])
        sel = sorted(x for x in sel if 0 <= x <= len(t))
        cap = 40 if len(t) <= 100 else 14
        if len(sel) > cap:
            sel = sorted(set(sel[i * (len(sel) - 1) // (cap - 1)] for i in range(cap)))
        ks = sel
    for k in ks:
        r = v[:k] + v[k:]
        pr = per_char(r)
        if r.base_str != t:
            o.fail('rejoin-text', '%s split at %d -> %r' % (describe(v), k, r.base_str))
            break
        bad = [i for i in range(len(t)) if not same_settings(pr[i], per[i])]
        if bad:
            o.fail('rejoin-settings', '%s split at %d: char %d reports %r, originally %r' % (describe(v), k, bad[0], pr[bad[0]], per[bad[0]]))
            break
        if wf:
            rr = renders(r)
            for fi, x in enumerate(rr):
                cells, fin, amb = sgrterm.run(x)
                if (cells, fin) != (ref[fi][0], ref[fi][1]):
                    o.fail('rejoin-display', '%s split at %d flags %r: renders %r, original renders %r' % (
                        describe(v), k, FLAGS8[fi], x, renders(v)[fi]))
                    break
        if o.fails:
            break
    o.nontrivial = change_points(per) >= 2
    o.key = [t, per]
    o.label('cp:%d' % min(change_points(per), 4), 'wf' if wf else 'not-wf')
    return o


def strat_concat():
    b = st.one_of(
        gen.progs(CFG).map(lambda p: {'k': 'prog', 'p': p}),
        gen.progs(CFG).map(lambda p: {'k': 'prog', 'p': p}),
        gen.progs(CFG).map(lambda p: {'k': 'prog', 'p': p}),
        gen.texts(0, 4, nonascii=True).map(lambda t: {'k': 'str', 't': t}),
        st.lists(st.sampled_from(['a', 'b', '1', 'm', '[', '\x1b', '\x1b[', '1m', '31m', ';4m', '\x1b[1m', '\x1b[m', 'def']), max_size=4).map(lambda l: {'k': 'str', 't': ''.join(l)}),
        st.just({'k': 'self'}),
        st.integers(0, 3).map(lambda i: {'k': 'bad', 'i': i}),
    )
    return st.fixed_dictionaries({'a': gen.progs(CFG), 'b': b})


SEAM_NAMES = ['red', 'blue', 'bold', 'faint', 'underline', 'bg_red', 'fg_default', 'no_bold_faint', 'orange', 'ul_red']


@st.composite
def strat_seam(draw):
    """Pairs whose seam settings are related: equal / prefix / permuted / extended, with staggered starts on the left
    and staggered stops on the right (the configurations the implementation merges)."""
    S = draw(st.lists(st.sampled_from(SEAM_NAMES), min_size=1, max_size=3))
    if draw(st.integers(0, 1)) == 0:
        S = S + [draw(st.sampled_from(S))]   # an equal-valued duplicate among the settings at the seam
    ta = draw(gen.texts(1, 5, nonascii=False))
    tb = draw(gen.texts(1, 5, nonascii=False))
    ra = []
    order = draw(st.permutations(list(range(len(S)))))
    for i in order:
        start = draw(st.integers(0, len(ta) - 1))
        ra.append({'s': [{'k': 'name', 'v': S[i]}], 'a': start, 'b': None, 'top': draw(st.sampled_from([True, True, False]))})
    how = draw(st.sampled_from(['same', 'same', 'prefix', 'perm', 'extra', 'other', 'sub', 'sub']))
    if len(S) >= 3 and draw(st.integers(0, 1)) == 0:
        # staggered starts, later applications starting further left (stop order != precedence order on the left)
        starts = sorted(draw(st.lists(st.integers(0, len(ta) - 1), min_size=len(S), max_size=len(S))), reverse=True)
        for r_, st_ in zip(ra, starts):
            r_['a'] = st_
            r_['top'] = True
    if how == 'same':
        SB = list(S)
    elif how == 'prefix':
        SB = S[:draw(st.integers(1, len(S)))]
    elif how == 'perm':
        SB = list(draw(st.permutations(S)))
    elif how == 'sub':
        k = draw(st.integers(1, len(S)))
        SB = list(draw(st.permutations(S)))[:k]
    elif how == 'extra':
        SB = list(S) + [draw(st.sampled_from(SEAM_NAMES))]
    else:
        SB = draw(st.lists(st.sampled_from(SEAM_NAMES), min_size=1, max_size=3))
    rb = []
    for nm in SB:
        end = draw(st.one_of(st.none(), st.integers(1, len(tb))))
        rb.append({'s': [{'k': 'name', 'v': nm}], 'a': 0, 'b': end, 'top': draw(st.sampled_from([True, True, False]))})
    if draw(st.booleans()):
        # all at once (one apply call with several settings)
        rb = [{'s': [{'k': 'name', 'v': nm} for nm in SB], 'a': 0, 'b': draw(st.one_of(st.none(), st.integers(1, len(tb)))), 'top': True}]
    a = {'cls': draw(st.sampled_from(['S', 'S', 's'])), 'ctor': {'k': 'ranges', 't': ta, 'r': ra}, 'ops': []}
    b = {'cls': draw(st.sampled_from(['S', 'S', 's'])), 'ctor': {'k': 'ranges', 't': tb, 'r': rb}, 'ops': []}
    if draw(st.integers(0, 4)) == 0:
        a['ops'].append({'op': 'center', 'w': len(ta) + draw(st.integers(1, 4)), 'f': ' ', 'ext': True, 'ip': True})
    return {'a': a, 'b': {'k': 'prog', 'p': b}}


def enum_seam_small(tier):
    """every left operand made of 1-3 applications of {red, blue, bold} ending at the seam with starts in {0,1,2} on a
    3-character text, against every right operand starting with 1-3 of those settings (stops staggered or not)"""
    import itertools
    names = ['red', 'blue', 'bold']
    for nl in (1, 2, 3):
        for L in itertools.product(names, repeat=nl):
            for starts in itertools.product(range(3), repeat=nl):
                ra = [{'s': [{'k': 'name', 'v': nm}], 'a': st_, 'b': None, 'top': True} for nm, st_ in zip(L, starts)]
                for nr in (1, 2, 3):
                    for R in itertools.product(names, repeat=nr):
                        if not set(R) & set(L):
                            continue
                        # the merged configurations (right starts with what the left stops with): every stop vector
                        if R == L[:nr] or sorted(R) == sorted(L):
                            stops = [(None,) * nr] + list(itertools.product((1, 2), repeat=nr))
                        else:
                            stops = [(None,) * nr, tuple(1 + (j % 2) for j in range(nr))]
                        for sv in stops:
                            rb = [{'s': [{'k': 'name', 'v': nm}], 'a': 0, 'b': sv[j], 'top': True} for j, nm in enumerate(R)]
                            yield {'a': {'cls': 'S', 'ctor': {'k': 'ranges', 't': 'abc', 'r': ra}, 'ops': []},
                                   'b': {'k': 'prog', 'p': {'cls': 'S', 'ctor': {'k': 'ranges', 't': 'de', 'r': rb}, 'ops': []}}}


@st.composite
def strat_splitseq(draw):
    """the left operand's text ends with the beginning of an escape sequence and the right operand's text starts with the
    rest: each operand keeps its own text (nothing is parsed across the seam), formatted or not"""
    pre = draw(st.sampled_from(['\x1b', '\x1b[', '\x1b[3', '\x1b[1;', '\x1b[38;5', 'a\x1b[m\x1b[']))
    rest = draw(st.sampled_from(['[1m', '1m', 'm', '4mdef', ';31mx', '[m', ';9m', '0m', 'K', '2K']))
    ta = draw(st.sampled_from(['', 'abc', 'a'])) + pre
    tb = rest + draw(st.sampled_from(['', 'def', 'z']))
    def rng(n):
        if n == 0 or draw(st.integers(0, 2)) == 0:
            return []
        a_ = draw(st.integers(0, n - 1))
        return [{'s': [{'k': 'name', 'v': draw(st.sampled_from(['red', 'bold', 'underline']))}], 'a': a_,
                 'b': draw(st.one_of(st.none(), st.integers(a_ + 1, n))), 'top': True}]
    a = {'cls': draw(st.sampled_from(['S', 'S', 's'])), 'ctor': {'k': 'ranges', 't': ta, 'r': rng(len(ta))}, 'ops': []}
    if draw(st.integers(0, 2)) == 0:
        a['ops'] = [{'op': 'clear'}]
    if draw(st.booleans()):
        b = {'k': 'str', 't': tb}
    else:
        b = {'k': 'prog', 'p': {'cls': draw(st.sampled_from(['S', 's'])), 'ctor': {'k': 'ranges', 't': tb, 'r': rng(len(tb))}, 'ops': []}}
    return {'a': a, 'b': b, 'splitseq': True}


def strat_join():
    # plain str arguments may carry escape sequences here (also unterminated ones / styles left open): join must still
    # equal the left fold of +, whatever each str parses to
    coded = st.lists(st.sampled_from(['a', 'b ', '\x1b[1m', '\x1b[31m', '\x1b[m', '\x1b[0;4m', 'é', '\x1b[38;5;3m', '\x1b[22m']), max_size=4).map(''.join)
    x = gen.weighted(
        (4, gen.progs(CFG).map(lambda p: {'k': 'prog', 'p': p})),
        (2, gen.texts(0, 4).map(lambda t: {'k': 'str', 't': t})),
        (3, coded.map(lambda t: {'k': 'str', 't': t})),
    )
    return st.fixed_dictionaries({'xs': st.lists(x, max_size=5)})


def strat_value():
    return st.fixed_dictionaries({'p': gen.progs(CFG)})


def eval_many(case):
    """a long chain of small styled pieces joined with +=, + and join: every character keeps its own operand's settings
    (long chains cross any size threshold of the implementation: number of change points, text length)"""
    o = Outcome()
    pieces = []
    for pc in case['pieces']:
        v = AnsiString(pc['t'])
        for r in pc['r']:
            v.apply_formatting(r[0], r[1], r[2], r[3])
        pieces.append(AnsiStr(v) if pc.get('s') else v)
    exp_t = ''.join(p.base_str for p in pieces)
    exp_p = [x for p in pieces for x in per_char(p)]
    acc = AnsiString('')
    for p in pieces:
        acc += p
    acc2 = AnsiString.join(*pieces) if pieces else AnsiString('')
    acc3 = pieces[0] if pieces else AnsiString('')
    for p in pieces[1:]:
        acc3 = acc3 + p
    for nm, r in (('+=', acc), ('join', acc2), ('+', acc3)):
        if r.base_str != exp_t:
            o.fail('many-text', '%s chain of %d pieces: text differs' % (nm, len(pieces)))
            continue
        pr = per_char(r)
        bad = [i for i in range(len(exp_t)) if not same_settings(pr[i], exp_p[i])]
        if bad:
            o.fail('many-settings', '%s chain of %d pieces (%d chars): char %d reports %r; in its own operand it reported %r' % (
                nm, len(pieces), len(exp_t), bad[0], pr[bad[0]], exp_p[bad[0]]))
        if tail_settings(r) != ():
            o.fail('many-not-closed', '%s chain of %d pieces' % (nm, len(pieces)))
    o.nontrivial = len(pieces) >= 30
    o.label('pieces:%d' % (len(pieces) // 10 * 10))
    return o


@st.composite
def strat_many(draw):
    names = ['red', 'blue', 'bold', 'bg_red', 'underline', 'faint', 'fg_default', 'orange', 'italic']
    n = draw(st.sampled_from([8, 20, 36, 48, 70, 90]))
    pieces = []
    for _ in range(n):
        t = draw(st.sampled_from(['a', 'ab', 'abc', 'x ', 'hello']))
        rs = []
        for _ in range(draw(st.integers(0, 3))):
            a = draw(st.integers(0, len(t) - 1))
            rs.append([draw(st.sampled_from(names)), a, draw(st.one_of(st.none(), st.integers(a + 1, len(t)))), draw(st.sampled_from([True, True, False]))])
        pieces.append({'t': t, 'r': rs, 's': draw(st.sampled_from([False, False, True]))})
    return {'pieces': pieces}


def enum_rejoin_small(tier):
    for names, depth, text in gen.small_scopes(tier):
        for i, p in enumerate(gen.small_values(names, depth, text)):
            yield {'p': p}
            if i % 7 == 0:
                yield {'p': dict(p, cls='s')}


SUBS = [
    Sub('many_pieces', eval_many, strategy=strat_many, quick=40, thorough=600,
        rule='chains of 8-90 small styled pieces (shadowed, conflicting and duplicate settings) concatenated with +=, join and +'),
    Sub('concat', eval_concat, strategy=strat_concat, quick=300, thorough=5000),
    Sub('seam', eval_concat, strategy=strat_seam, quick=1200, thorough=12000,
        rule='seam-forcing generator: related settings on both sides of the seam'),
    Sub('split_sequence', eval_concat, strategy=strat_splitseq, quick=60, thorough=1500,
        rule='the left text ends with the beginning of an escape sequence, the right text starts with the rest'),
    Sub('seam_small_exhaustive', eval_concat, enumerate=enum_seam_small,
        exhaustive_note='all left operands built from <=3 applications of {red, blue, bold} ending at the seam x all right operands starting with <=3 of them (every stop vector in {1,2}^n for the merged configurations)'),
    Sub('rejoin_small_exhaustive', eval_rejoin, enumerate=enum_rejoin_small,
        rule='s[:k] + s[k:] for every k of every value reachable by <= 2 apply/remove steps over {red, blue, bold} on 3 characters and <= 3 steps over {red, blue} on 2 (thorough: 3) characters',
        exhaustive_note='all values of the small scopes x all split points'),
    Sub('join', eval_join, strategy=strat_join, quick=150, thorough=2500),
    Sub('rejoin', eval_rejoin, strategy=strat_value, quick=150, thorough=3000,
        rule='s[:k] + s[k:] for every k in 0..len of each generated value'),
]
