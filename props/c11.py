"""C11 -- substring and editing methods keep the style of every surviving character."""
from hypothesis import strategies as st
from vlib.core import Sub, Outcome, HarnessError
from vlib import gen
from vlib.interp import (Interp, BuilderInvalid, per_char, same_settings, tail_settings, change_points, describe)
from ansi_string import AnsiString, AnsiStr

RULE = ('values with position-dependent formatting over a small alphabet (so separators and patterns recur, overlap and '
        'also occur inside pieces) x method in split/rsplit/splitlines/partition/rpartition/strip family/removeprefix/'
        'removesuffix/case methods/assign_str/replace/expandtabs x arguments drawn from the text; replacement values: '
        'plain str, AnsiString, AnsiStr (formatted or not) reused for every match. True piece offsets are computed from '
        'the str result alone. Non-trivial = value has >=2 change points and the call yields >=2 non-empty pieces / '
        '>=2 matches / removes or adds characters; distinct by (text, per-character settings, method, args).')
ASSUMPTIONS = ['case conversions are asserted only when they preserve the length',
               'replace with an empty search string: text only (an empty match has no first character)',
               'empty separators are outside the claim']

CFG = gen.Cfg(esc=True, odd=0.1, invalid=True, incomplete=False, max_ops=3, alphabet=['a', 'a', 'b', ' ', '-', ':', '\t', '\n', '\r\n'], min_text=3, max_text=12,
              rich=True, ansi_ctor=False)
WS = ' \t\n\r\v\f'


# ---- true offsets, computed from str results only
def split_offsets(t, sep, maxsplit, right):
    pieces = t.rsplit(sep, maxsplit) if right else t.split(sep, maxsplit)
    offs = []
    if sep is not None:
        if not right:
            cur = 0
            for p in pieces:
                offs.append(cur)
                cur += len(p) + len(sep)
        else:
            end = len(t)
            for p in reversed(pieces):
                offs.append(end - len(p))
                end = end - len(p) - len(sep)
            offs.reverse()
    else:
        if not right:
            pos = 0
            for p in pieces:
                while pos < len(t) and t[pos].isspace():
                    pos += 1
                offs.append(pos)
                pos += len(p)
        else:
            end = len(t)
            for p in reversed(pieces):
                while end > 0 and t[end - 1].isspace():
                    end -= 1
                offs.append(end - len(p))
                end -= len(p)
            offs.reverse()
    for p, off in zip(pieces, offs):
        if t[off:off + len(p)] != p:
            raise HarnessError('offset helper wrong: %r %r %r %r' % (t, sep, maxsplit, right))
    return pieces, offs


def splitlines_offsets(t, keep):
    full = t.splitlines(True)
    pieces = t.splitlines(keep)
    offs = []
    cur = 0
    for f in full:
        offs.append(cur)
        cur += len(f)
    return pieces, offs


def self_test():
    assert split_offsets('xabbbb', 'ab', -1, False) == (['x', 'bbb'], [0, 3])
    assert split_offsets('aaaa', 'aa', 1, True) == (['aa', ''], [0, 4])
    assert split_offsets(' a  b c ', None, 1, False) == (['a', 'b c '], [1, 4])
    assert split_offsets(' a  b c ', None, 1, True) == ([' a  b', 'c'], [0, 6])
    assert splitlines_offsets('a\r\nb\n', False) == (['a', 'b'], [0, 3])


def check_piece(o, what, piece, exp_text, per, off, cls):
    if type(piece).__name__ != cls:
        o.fail('piece-type', '%s: piece is %s' % (what, type(piece).__name__))
        return
    if piece.base_str != exp_text:
        o.fail('piece-text', '%s: piece text %r expected %r' % (what, piece.base_str, exp_text))
        return
    pp = per_char(piece)
    for k in range(len(exp_text)):
        if not same_settings(pp[k], per[off + k]):
            o.fail('piece-settings', '%s: piece %r (true offset %d) char %d reports %r, original char %d reports %r' % (
                what, exp_text, off, k, pp[k], off + k, per[off + k]))
            return
    if tail_settings(piece) != ():
        o.fail('piece-not-closed', '%s: piece %r + Z: Z reports %r' % (what, exp_text, tail_settings(piece)))


def eval_case(case):
    o = Outcome()
    try:
        v = Interp().build_checked(case['p'])
    except BuilderInvalid:
        o.skipped = 'builder_invalid'
        return o
    t, per = v.base_str, per_char(v)
    cls = type(v).__name__
    m, a = case['m'], case['a']
    L = len(t)

    def sub(x):
        """argument spec: ['lit', s] or ['sl', i, j] (slice of the text)"""
        if x is None:
            return None
        if x[0] == 'lit':
            return x[1]
        if L == 0:
            return 'a'
        i = x[1] % L
        return t[i:i + max(1, x[2])] or 'a'
    what = '%s.%s' % (describe(v), m)
    big = False
    if m in ('split', 'rsplit'):
        sep = sub(a[0])
        if sep == '':
            o.skipped = 'empty-separator'
            return o
        what += '(%r, %r)' % (sep, a[1])
        pieces, offs = split_offsets(t, sep, a[1], m == 'rsplit')
        got = getattr(v, m)(sep, a[1])
        if len(got) != len(pieces):
            o.fail('piece-count', '%s -> %d pieces, str gives %d' % (what, len(got), len(pieces)))
            return o
        for g, p, off in zip(got, pieces, offs):
            check_piece(o, what, g, p, per, off, cls)
        big = len([p for p in pieces if p]) >= 2
    elif m == 'splitlines':
        what += '(%r)' % (a[0],)
        pieces, offs = splitlines_offsets(t, a[0])
        got = v.splitlines(a[0])
        if len(got) != len(pieces):
            o.fail('piece-count', '%s -> %d pieces, str gives %d' % (what, len(got), len(pieces)))
            return o
        for g, p, off in zip(got, pieces, offs):
            check_piece(o, what, g, p, per, off, cls)
        big = len([p for p in pieces if p]) >= 2
    elif m in ('partition', 'rpartition'):
        sep = sub(a[0])
        if sep == '':
            o.skipped = 'empty-separator'
            return o
        what += '(%r)' % (sep,)
        i = t.find(sep) if m == 'partition' else t.rfind(sep)
        got = list(getattr(v, m)(sep))
        if len(got) != 3:
            o.fail('piece-count', what)
            return o
        if i >= 0:
            exp = [(t[:i], 0), (sep, i), (t[i + len(sep):], i + len(sep))]
        else:
            exp = [(t, 0), ('', 0), ('', 0)]
        for g, (p, off) in zip(got, exp):
            check_piece(o, what, g, p, per, off, cls)
        big = i > 0 and i + len(sep) < L
    elif m in ('strip', 'lstrip', 'rstrip'):
        chars = sub(a[0]) if a[0] is not None else None
        what += '(%r)' % (chars,)
        cs = WS if chars is None else chars
        exp = getattr(t, m)(cs)
        off = (L - len(t.lstrip(cs))) if m in ('strip', 'lstrip') else 0
        got = getattr(v, m)(chars)
        check_piece(o, what, got, exp, per, off, cls)
        big = 0 < len(exp) < L
    elif m in ('removeprefix', 'removesuffix'):
        x = sub(a[0])
        what += '(%r)' % (x,)
        exp = getattr(t, m)(x)
        off = len(x) if (m == 'removeprefix' and t.startswith(x)) else 0
        got = getattr(v, m)(x)
        check_piece(o, what, got, exp, per, off, cls)
        big = 0 < len(exp) < L
    elif m == 'case':
        fn = a[0]
        exp = getattr(t, fn)()
        got = getattr(v, fn)()
        what = '%s.%s()' % (describe(v), fn)
        if len(exp) != L:
            o.skipped = 'case-changes-length'
            return o
        check_piece(o, what, got, exp, per, 0, cls)
        big = exp != t
    elif m == 'assign':
        if cls != 'AnsiString':
            o.skipped = 'assign-not-on-AnsiStr'
            return o
        nt = a[0]
        what += '_str(%r)' % (nt,)
        w = v.copy()
        w.assign_str(nt)
        pw = per_char(w)
        if w.base_str != nt:
            o.fail('assign-text', what)
            return o
        for k in range(len(nt)):
            exp = per[k] if k < L else (per[L - 1] if L else ())
            if not same_settings(pw[k], exp):
                o.fail('assign-settings', '%s: char %d reports %r expected %r' % (what, k, pw[k], exp))
                break
        exp_tail = () if (len(nt) > 0 or True) else ()
        if tail_settings(w) != ():
            o.fail('assign-not-closed', '%s: Z reports %r' % (what, tail_settings(w)))
        big = len(nt) != L
    elif m in ('replace', 'expandtabs'):
        if m == 'expandtabs':
            old, newtext, count, nk = '\t', ' ' * a[0], -1, 'str'
            what += '(%r)' % (a[0],)
        else:
            old, newtext, count, nk = sub(a[0]), a[1], a[2], a[3]
            what += '(%r, %s %r, %r)' % (old, nk, newtext, count)
        if nk == 'str':
            new = newtext
            pnew = None
        else:
            new = AnsiString(newtext)
            for r in a[4] if len(a) > 4 else []:
                new.apply_formatting(r[0], r[1], r[2])
            if nk == 's':
                new = AnsiStr(new)
            pnew = per_char(new)
            new_before = (new.base_str, pnew, str(new))
        # matches in the original text the way str.replace finds them
        matches = []
        pos = 0
        c = count
        if old != '':
            while c != 0:
                i = t.find(old, pos)
                if i < 0:
                    break
                matches.append(i)
                pos = i + len(old)
                c -= 1
        exp_text = t.replace(old, newtext, count)
        got = v.expandtabs(a[0]) if m == 'expandtabs' else v.replace(old, new, count)
        if type(got).__name__ != cls:
            o.fail('replace-type', '%s -> %s' % (what, type(got).__name__))
        if got.base_str != exp_text:
            o.fail('replace-text', '%s -> %r, str gives %r' % (what, got.base_str, exp_text))
            return o
        if old == '':
            o.skipped = 'empty-old-text-only'
            return o
        exp_per = []
        pos = 0
        for i in matches:
            exp_per.extend(per[pos:i])
            if pnew is None:
                exp_per.extend([per[i]] * len(newtext))
            else:
                exp_per.extend(pnew)
            pos = i + len(old)
        exp_per.extend(per[pos:])
        pg = per_char(got)
        for k in range(len(exp_text)):
            if not same_settings(pg[k], exp_per[k]):
                o.fail('replace-settings', '%s -> %s: char %d reports %r expected %r' % (what, describe(got), k, pg[k], exp_per[k]))
                break
        if tail_settings(got) != ():
            o.fail('replace-not-closed', '%s: Z reports %r' % (what, tail_settings(got)))
        if pnew is not None and (new.base_str, per_char(new), str(new)) != new_before:
            o.fail('replacement-modified', '%s: replacement now %s' % (what, describe(new)))
        big = len(matches) >= 2 or (len(matches) >= 1 and pnew is not None and any(pnew))
        o.label('matches:%d' % min(len(matches), 3), 'new:' + nk)
    else:
        raise HarnessError('bad method %r' % m)
    if per_char(v) != per or v.base_str != t:
        o.fail('receiver-changed', '%s: receiver now %s' % (what, describe(v)))
    o.nontrivial = big and change_points(per) >= 2
    o.key = [t, per, m, a]
    o.label(m, 'cp:%d' % min(change_points(per), 4))
    return o


def strat():
    subarg = st.one_of(st.tuples(st.just('sl'), st.integers(0, 11), st.integers(1, 2)).map(list),
                       st.tuples(st.just('sl'), st.integers(0, 11), st.integers(1, 3)).map(list),
                       st.sampled_from([['lit', 'a'], ['lit', 'aa'], ['lit', ' '], ['lit', 'ab'], ['lit', '-'], ['lit', '\n'], ['lit', 'x']]))
    cnt = st.sampled_from([-1, -1, 0, 1, 2])
    rng = st.tuples(st.sampled_from(['red', 'bold', 'blue', 'bg_red', 'underline']), st.integers(0, 2), st.one_of(st.none(), st.integers(1, 3))).map(list)
    m = st.one_of(
        st.tuples(st.sampled_from(['split', 'rsplit']), st.tuples(st.one_of(st.none(), subarg), cnt).map(list)),
        st.tuples(st.sampled_from(['split', 'rsplit']), st.tuples(subarg, cnt).map(list)),
        st.tuples(st.just('splitlines'), st.tuples(st.booleans()).map(list)),
        st.tuples(st.sampled_from(['partition', 'rpartition']), st.tuples(subarg).map(list)),
        st.tuples(st.sampled_from(['strip', 'lstrip', 'rstrip']), st.tuples(st.one_of(st.none(), subarg)).map(list)),
        st.tuples(st.sampled_from(['removeprefix', 'removesuffix']), st.tuples(subarg).map(list)),
        st.tuples(st.just('case'), st.tuples(st.sampled_from(['lower', 'upper', 'title', 'capitalize', 'swapcase', 'casefold'])).map(list)),
        st.tuples(st.just('assign'), st.tuples(gen.texts(0, 14, nonascii=False)).map(list)),
        st.tuples(st.just('replace'), st.tuples(subarg, gen.texts(0, 3, nonascii=False, alphabet='ab -xy'), cnt,
                                                st.sampled_from(['str', 'str', 'S', 'S', 's']), st.lists(rng, max_size=2)).map(list)),
        st.tuples(st.just('replace'), st.tuples(subarg, gen.texts(1, 3, nonascii=False, alphabet='ab -xy'), cnt,
                                                st.sampled_from(['S', 's']), st.lists(rng, min_size=1, max_size=2)).map(list)),
        st.tuples(st.just('expandtabs'), st.tuples(st.integers(0, 4)).map(list)),
    )
    return st.tuples(gen.prog(CFG), m).map(lambda x: {'p': x[0], 'm': x[1][0], 'a': x[1][1]})


CFG_AB = gen.Cfg(esc=False, odd=0.0, max_ops=1, alphabet='aab', min_text=4, max_text=10, rich=True, ansi_ctor=False, cls_s=0.2)
CFG_WS = gen.Cfg(esc=False, odd=0.0, max_ops=1, alphabet='a  b\t\n', min_text=4, max_text=10, rich=True, ansi_ctor=False, cls_s=0.2)


def strat_split_focus():
    """texts over two letters: every separator drawn from the text recurs, overlaps itself and also occurs inside pieces"""
    subarg = st.tuples(st.just('sl'), st.integers(0, 9), st.integers(1, 3)).map(list)
    cnt = st.sampled_from([-1, -1, 1, 2, 3])
    m = st.one_of(
        st.tuples(st.sampled_from(['split', 'rsplit']), st.tuples(subarg, cnt).map(list)),
        st.tuples(st.sampled_from(['partition', 'rpartition']), st.tuples(subarg).map(list)),
        st.tuples(st.sampled_from(['removeprefix', 'removesuffix', 'strip', 'lstrip', 'rstrip']), st.tuples(subarg).map(list)),
        st.tuples(st.just('replace'), st.tuples(subarg, st.sampled_from(['', 'b', 'ab', 'aaa']), cnt, st.sampled_from(['str', 'S', 's']),
                                                st.just([['red', 0, 1]])).map(list)),
    )
    ws = st.tuples(st.sampled_from(['split', 'rsplit']), st.tuples(st.none(), cnt).map(list))
    return st.one_of(st.tuples(gen.prog(CFG_AB), m).map(lambda x: {'p': x[0], 'm': x[1][0], 'a': x[1][1]}),
                     st.tuples(gen.prog(CFG_AB), m).map(lambda x: {'p': x[0], 'm': x[1][0], 'a': x[1][1]}),
                     st.tuples(gen.prog(CFG_WS), ws).map(lambda x: {'p': x[0], 'm': x[1][0], 'a': x[1][1]}))


SUBS = [
    Sub('split_focus', eval_case, strategy=strat_split_focus, quick=700, thorough=12000,
        rule='two-letter / whitespace texts with position-dependent formatting; separators and patterns are slices of the text'),
    Sub('methods', eval_case, strategy=strat, quick=900, thorough=15000),
]
