"""C07 -- remove_formatting removes exactly the requested settings, only inside the range."""
from hypothesis import strategies as st
from vlib.core import Sub, Outcome
from vlib import gen, sgrterm
from vlib.interp import (Interp, BuilderInvalid, resolve_idx, per_char, same_settings, tail_settings, change_points, describe,
                         mk_settings, texts_of_specs, style, styles, groups, wellformed)
from ansi_string import AnsiString, AnsiStr
from ansi_string.ansi_format import AnsiSetting

RULE = ('values = generated programs (both classes) x selection in {None, a setting present on some character (picked '
        'from the value), settings from the pool (often absent), lists} x start/end in {None} U [-14,14] U {+-100,+-10^6}; '
        'clear_formatting(). Non-trivial = non-empty range inside which a selected setting is present and >=2 settings '
        'touching a common effect group span the range end, or the selection hits one of several equal instances; '
        'distinct by (text, per-character settings, selection, range).')
ASSUMPTIONS = ['selected = every setting whose text equals the text of one of the given settings (as read from a fresh '
               'one-character string for name/int spellings)']

CFG = gen.Cfg(esc=True, odd=0.12, invalid=True, incomplete=False, max_ops=4)


def eval_remove(case):
    o = Outcome()
    try:
        v = Interp().build_checked(case['p'])
    except BuilderInvalid:
        o.skipped = 'builder_invalid'
        return o
    t = v.base_str
    n = len(t)
    per_b = per_char(v)
    a, b = resolve_idx(case['a'], v), resolve_idx(case['b'], v)
    sel = case['sel']
    if sel is None:
        sel_texts = None
        settings = None
    elif isinstance(sel, dict) and sel.get('pick') is not None:
        cands = [(k, j) for k in range(n) for j in range(len(per_b[k]))]
        if not cands:
            sel_texts = ('31',)
        else:
            k, j = cands[sel['pick'] % len(cands)]
            sel_texts = (per_b[k][j],)
        settings = [AnsiSetting(x) for x in sel_texts]
        if sel.get('extra'):
            settings.append('bold')
            sel_texts = sel_texts + ('1',)
    else:
        sel_texts = texts_of_specs(sel)
        settings = mk_settings(sel)
    snapshot_eq = v.copy() if isinstance(v, AnsiString) else v
    if isinstance(v, AnsiString):
        ret = v.remove_formatting(settings, a, b)
        w = v
        if ret is not None:
            o.fail('return-value', repr(ret))
    else:
        w = v.remove_formatting(settings, a, b)
        if type(w) is not AnsiStr:
            o.fail('result-type', type(w).__name__)
            return o
        if per_char(v) != per_b or v.base_str != t:
            o.fail('ansistr-receiver-changed', describe(v))
    s0, s1, _ = slice(a, b).indices(n)
    what = 'AnsiString(%r %s).remove_formatting(%r, %r, %r)' % (t, ' '.join('|'.join(p) or '-' for p in per_b),
                                                                 None if sel_texts is None else list(sel_texts), a, b)
    if w.base_str != t:
        o.fail('text-changed', '%s -> %r' % (what, w.base_str))
        return o
    per_a = per_char(w)
    empty = s1 <= s0 or (sel_texts is not None and not sel_texts)
    hit = False
    multi = False
    for k in range(n):
        if k < s0 or k >= s1 or empty:
            if not same_settings(per_a[k], per_b[k]):
                o.fail('noop-changed' if empty else 'outside-changed', '%s: char %d (outside [%d,%d)) reports %r, before %r' % (
                    what, k, s0, s1, per_a[k], per_b[k]))
                break
        else:
            exp = tuple(x for x in per_b[k] if not (sel_texts is None or x in sel_texts))
            if len(exp) != len(per_b[k]):
                hit = True
                if len(per_b[k]) - len(exp) >= 2 and sel_texts is not None and len(set(sel_texts)) == 1:
                    multi = True
            if sorted(per_a[k]) != sorted(exp):
                o.fail('inside-wrong-set', '%s: char %d reports %r, expected %r' % (what, k, per_a[k], exp))
                break
            if not same_settings(per_a[k], exp):
                o.fail('inside-precedence', '%s: char %d reports %r, expected order %r' % (what, k, per_a[k], exp))
                break
    if empty and isinstance(v, AnsiString) and not (w == snapshot_eq):
        o.fail('noop-changed-eq', '%s: no longer == to a copy taken before' % what)
    tl = tail_settings(w)
    if tl != ():
        o.fail('not-closed', '%s: appended Z reports %r' % (what, tl))
    str(w)
    # non-trivial rule
    span_conflict = False
    if not empty and 0 < s1 < n:
        common = [x for x in per_b[s1 - 1] if x in per_b[s1]]
        gs = [groups(x) for x in common]
        for i in range(len(gs)):
            for j in range(i + 1, len(gs)):
                if gs[i] & gs[j] or '*' in gs[i] or '*' in gs[j]:
                    span_conflict = True
    o.nontrivial = (not empty) and hit and (span_conflict or multi)
    o.key = [t, per_b, None if sel_texts is None else list(sel_texts), a, b]
    o.label('sel:' + ('none' if sel_texts is None else ('present' if hit else 'absent')), 'empty' if empty else 'nonempty')
    if span_conflict:
        o.label('conflict-spans-end')
    if multi:
        o.label('equal-instances')
    return o


def eval_clear(case):
    o = Outcome()
    try:
        v = Interp().build_checked(case['p'])
    except BuilderInvalid:
        o.skipped = 'builder_invalid'
        return o
    t = v.base_str
    per_b = per_char(v)
    if isinstance(v, AnsiString):
        v.clear_formatting()
        w = v
    else:
        w = v.clear_formatting()
        if per_char(v) != per_b:
            o.fail('ansistr-receiver-changed', describe(v))
    if w.base_str != t or any(per_char(w)) or (str(w) != t and '\x1b' not in t) or tail_settings(w) != ():
        o.fail('clear-leaves-formatting', 'after clear_formatting: %s renders %r' % (describe(w), str(w)))
    o.nontrivial = any(per_b)
    o.key = [t, per_b]
    return o


def strat():
    cfg = CFG
    sel = st.one_of(st.none(), st.fixed_dictionaries({'pick': st.integers(0, 50), 'extra': st.booleans()}),
                    st.fixed_dictionaries({'pick': st.integers(0, 50), 'extra': st.just(False)}),
                    gen.specs(cfg, 1, 2), st.just([]),
                    st.sampled_from([[{'k': 'str', 'v': ''}], [{'k': 'list', 'v': []}], [{'k': 'str', 'v': ';'}], [{'k': 'tuple', 'v': [{'k': 'str', 'v': ''}]}],
                                     [{'k': 'str', 'v': ''}, {'k': 'str', 'v': ';;'}]]))
    return st.fixed_dictionaries({'p': gen.weighted((12, gen.progs(cfg)), (1, gen.prog_huge(cfg))), 'sel': sel, 'a': gen.ridx(), 'b': gen.ridx()})


@st.composite
def strat_conflict(draw):
    names = ['red', 'blue', 'bold', 'faint', 'no_bold_faint', 'fg_default', 'underline', 'orange', 'bg_red', 'red', 'blue']
    n = draw(st.integers(2, 7))
    t = draw(gen.texts(n, n, nonascii=False))
    rs = []
    for _ in range(draw(st.integers(2, 5))):
        a = draw(st.integers(0, n - 1))
        b = draw(st.one_of(st.integers(a + 1, n), st.none()))
        rs.append({'s': [{'k': 'name', 'v': draw(st.sampled_from(names))}], 'a': a, 'b': b, 'top': draw(st.sampled_from([True, True, False]))})
    a = draw(st.integers(0, n - 1))
    b = draw(st.one_of(st.integers(a + 1, n), st.integers(a + 1, n), st.none()))
    sel = draw(st.one_of(st.none(), st.fixed_dictionaries({'pick': st.integers(0, 50), 'extra': st.just(False)}),
                         st.fixed_dictionaries({'pick': st.integers(0, 50), 'extra': st.just(False)})))
    return {'p': {'cls': draw(st.sampled_from(['S', 'S', 's'])), 'ctor': {'k': 'ranges', 't': t, 'r': rs}, 'ops': []},
            'sel': sel, 'a': a, 'b': b}


@st.composite
def strat_restart(draw):
    """a setting inserted below (topmost=False), conflicting settings applied on top across its start afterwards, then the
    inserted setting (or another one) is removed: restarts that still decide precedence must survive the removal"""
    names = ['red', 'blue', 'bold', 'faint', 'no_bold_faint', 'underline', 'no_underline', 'fg_default', 'green', 'italic']
    n = draw(st.integers(3, 8))
    t = draw(gen.texts(n, n, nonascii=False))
    rs = [{'s': [{'k': 'name', 'v': draw(st.sampled_from(names))}], 'a': 0, 'b': None, 'top': True}]
    ops = []
    low = draw(st.sampled_from(['italic', 'crossed_out', 'bold', 'red']))
    a = draw(st.integers(1, n - 1))
    b = draw(st.one_of(st.none(), st.integers(a + 1, n)))
    ops.append({'op': 'apply', 's': [{'k': 'name', 'v': low}], 'a': a, 'b': b, 'top': False})
    for _ in range(draw(st.integers(1, 2))):
        x = draw(st.integers(0, n - 1))
        ops.append({'op': 'apply', 's': [{'k': 'name', 'v': draw(st.sampled_from(names))}], 'a': x,
                    'b': draw(st.one_of(st.none(), st.integers(x + 1, n))), 'top': draw(st.sampled_from([True, True, False]))})
    which = draw(st.integers(0, 3))
    sel = [{'k': 'name', 'v': low}] if which < 2 else (None if which == 2 else {'pick': draw(st.integers(0, 20)), 'extra': False})
    ra = draw(st.sampled_from([a, a, 0, max(0, a - 1)]))
    rb = draw(st.sampled_from([b, b, None, min(n, a + 1)]))
    return {'p': {'cls': draw(st.sampled_from(['S', 'S', 's'])), 'ctor': {'k': 'ranges', 't': t, 'r': rs}, 'ops': ops},
            'sel': sel, 'a': ra, 'b': rb}


def enum_small(tier):
    """every value of the small scopes x every remove_formatting call of the same scope (plus None = everything)"""
    for names, depth, text in gen.small_scopes(tier):
        sels = [[{'k': 'name', 'v': nm}] for nm in names] + [None]
        rngs = gen.small_ranges(len(text))
        for i, p in enumerate(gen.small_values(names, depth, text)):
            if not p['ops']:
                continue
            for sel in sels:
                for a, b in rngs:
                    yield {'p': p, 'sel': sel, 'a': a, 'b': b}
            if i % 7 == 0:
                q = dict(p, cls='s')
                for a, b in rngs[::2]:
                    yield {'p': q, 'sel': sels[0], 'a': a, 'b': b}


SUBS = [
    Sub('remove_after_restart', eval_remove, strategy=strat_restart, quick=400, thorough=6000,
        rule='remove_formatting on values with restart pairs (below-insert followed by topmost applications across its start)'),
    Sub('small_exhaustive', eval_remove, enumerate=enum_small,
        rule='every value reachable from a plain text by <= 2 apply/remove steps over {red, blue, bold} on 3 characters and by <= 3 steps over {red, blue} on 2 characters (thorough: 3) - all ranges, topmost both ways, x every remove_formatting call of the same scope and remove-all',
        exhaustive_note='all values of the small scopes x all remove_formatting calls of that scope'),
    Sub('remove', eval_remove, strategy=strat, quick=500, thorough=8000),
    Sub('remove_conflict', eval_remove, strategy=strat_conflict, quick=600, thorough=10000,
        rule='small values with staggered conflicting / equal settings; selection picked from the value; in-range bounds'),
    Sub('clear', eval_clear, strategy=lambda: st.fixed_dictionaries({'p': gen.progs(CFG)}), quick=100, thorough=1000,
        shards_quick=2, shards_thorough=4),
]
