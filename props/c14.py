"""C14 -- all documented spellings of a setting give the same codes; bad ones rejected."""
import itertools
from hypothesis import strategies as st
from vlib.core import Sub, Outcome, HarnessError, lib_frame
from vlib import gen, sgrterm
from vlib.interp import per_char, describe
from ansi_string import AnsiString, AnsiStr, AnsiFormat
from ansi_string.ansi_format import AnsiSetting, ColorComponentType

RULE = ('exhaustive: every name in AnsiFormat.__members__ x {member, NAME, name, mixed case, spaces, hyphens, int list, ";"-string, '
        'verbatim "[..." per setting, AnsiSetting, tuple}; every SGR code 0..255 as int / str / zero-padded str / "[n". '
        'generated: rgb()/color256() helpers and their string forms x component prefix x colo[u]r x argument shapes '
        '(3 components / one 24-bit value, decimal / 0x-hex, brackets, spaces) x boundary values; several directives in one '
        'string; nested lists/tuples (depth <= 4) mixing all forms; error classes. Non-trivial = the form is not the canonical '
        'member object (names), or a helper string / nested structure with >= 2 leaves; distinct by case.')
ASSUMPTIONS = ['equivalence is asserted against the AnsiFormat member (or the helper call); an independent hand table pins 30 names',
               'rgb helper expectation: own formula (clamp 3 components to 0..255; split one value into (v>>16)&255,(v>>8)&255,v&255; '
               'fg 38 / bg 48 / ul,dul 58 with a leading 4 / 21)',
               'color256 values outside 0..255 and upper-case function names are not asserted',
               'adjacent integer leaves form one code run (read by the reference code reader); incomplete colour groups are not generated']

HAND = {'bold': ['1'], 'faint': ['2'], 'italic': ['3'], 'underline': ['4'], 'slow_blink': ['5'], 'rapid_blink': ['6'], 'swap_bg_fg': ['7'],
        'hide': ['8'], 'crossed_out': ['9'], 'default_font': ['10'], 'alt_font_1': ['11'], 'gothic_font': ['20'],
        'double_underline': ['21'], 'no_bold_faint': ['22'], 'no_italic': ['23'], 'no_underline': ['24'], 'no_blink': ['25'],
        'no_swap_bg_fg': ['27'], 'no_hide': ['28'], 'no_crossed_out': ['29'], 'red': ['31'], 'fg_red': ['31'], 'blue': ['34'],
        'fg_default': ['39'], 'bg_red': ['41'], 'bg_default': ['49'], 'framed': ['51'], 'overlined': ['53'],
        'default_underline_color': ['59'], 'fg_bright_red': ['91'], 'bg_bright_white': ['107'], 'orange': ['38;5;214'],
        'ul_red': ['4', '58;5;9'], 'dul_blue': ['21', '58;5;12']}
COMP = {'fg': ColorComponentType.FOREGROUND, 'bg': ColorComponentType.BACKGROUND, 'ul': ColorComponentType.UNDERLINE,
        'dul': ColorComponentType.DOUBLE_UNDERLINE}


def obs(form):
    v = AnsiString('x', form)
    return tuple(str(x) for x in v.ansi_settings_at(0)), str(v)


def obs_all(form):
    """constructor, apply_formatting, AnsiStr must agree."""
    a = obs(form)
    v = AnsiString('x')
    v.apply_formatting(form)
    b = (tuple(str(x) for x in v.ansi_settings_at(0)), str(v))
    s = AnsiStr('x', form)
    c = (tuple(str(x) for x in s.ansi_settings_at(0)), str(s))
    return a, b, c


def mixed(name):
    return ''.join(ch.upper() if i % 2 else ch.lower() for i, ch in enumerate(name))


def eval_name(case):
    o = Outcome()
    name = case['name']
    member = AnsiFormat[name]
    ref = obs(member)
    texts = [str(x) for x in member.ansi_settings]
    if ref[0] != tuple(texts):
        o.fail('member-settings', '%s: reports %r, member defines %r' % (name, ref[0], texts))
    if name.lower() in HAND and list(ref[0]) != HAND[name.lower()]:
        o.fail('hand-table', '%s: reports %r, expected %r' % (name, ref[0], HAND[name.lower()]))
    ints = []
    for t in texts:
        ints += [int(x) for x in t.split(';')]
    forms = {
        'NAME': name, 'lower': name.lower(), 'mixed': mixed(name), 'spaces': name.lower().replace('_', ' '),
        'hyphens': name.replace('_', '-'), 'title-spaces': name.replace('_', ' ').title(),
        'ints': list(ints), 'int-args-tuple': tuple(ints), 'semicolon': ';'.join(str(i) for i in ints),
        'verbatim': ['[' + t for t in texts], 'ansisetting': [AnsiSetting(t) for t in texts], 'tuple': (member,),
        'nested': [[member]], 'name-in-list': [name.lower()],
    }
    for k, f in forms.items():
        try:
            res = obs_all(f)
        except Exception as e:
            if lib_frame(e)[0] != 'lib':
                raise
            o.fail('spelling-rejected:' + k, '%s as %s (%r) raised %s: %s' % (name, k, f, type(e).__name__, e))
            continue
        for which, r in zip(('constructor', 'apply_formatting', 'AnsiStr'), res):
            if r != ref:
                o.fail('spelling-differs:' + k, '%s as %s (%r) via %s gives %r, member gives %r' % (name, k, f, which, r, ref))
                break
    # format-spec ansi part (string forms)
    for k in ('lower', 'spaces', 'semicolon'):
        try:
            got = format(AnsiString('x'), ':' + forms[k])
        except Exception as e:
            if lib_frame(e)[0] != 'lib':
                raise
            o.fail('spec-rejected:' + k, '%s: format spec %r raised %r' % (name, ':' + forms[k], e))
            continue
        if got != ref[1]:
            o.fail('spec-differs:' + k, '%s: format(x, %r) = %r, member renders %r' % (name, ':' + forms[k], got, ref[1]))
    x = AnsiString('x', member)
    if not x.is_formatting_valid() or not x.is_formatting_parsable():
        o.fail('member-not-parsable', name)
    o.nontrivial = True
    return o


def enum_names(tier):
    for n in AnsiFormat.__members__:
        yield {'name': n}


def eval_code(case):
    o = Outcome()
    n = case['n']
    ref = (str(n),)
    for k, f in (('int', n), ('str', str(n)), ('padded', '0' + str(n)), ('padded3', '%03d' % n), ('verbatim', '[' + str(n)),
                 ('list', [n]), ('ansisetting', AnsiSetting(n)), ('spaced', ' %d ' % n)):
        try:
            r = obs(f)
        except Exception as e:
            if lib_frame(e)[0] != 'lib':
                raise
            o.fail('code-rejected:' + k, 'code %d as %s raised %r' % (n, k, e))
            continue
        if r[0] != ref:
            o.fail('code-differs:' + k, 'code %d as %s (%r) reports %r' % (n, k, f, r[0]))
    for bad in (-n - 1,):
        for f in (bad, [bad], str(bad)):
            try:
                AnsiString('x', f)
                o.fail('negative-accepted', repr(f))
            except ValueError:
                pass
    o.nontrivial = True
    return o


def enum_codes(tier):
    for n in range(256):
        yield {'n': n}


# ---------------------------------------------------------------- helpers
def clamp(x):
    return max(0, min(255, x))


def exp_rgb(args, comp):
    if len(args) == 3:
        r, g, b = (clamp(x) for x in args)
    else:
        v = args[0]
        r, g, b = (v >> 16) & 255, (v >> 8) & 255, v & 255
    code = {'fg': 38, 'bg': 48, 'ul': 58, 'dul': 58}[comp]
    lead = {'ul': ['4'], 'dul': ['21']}.get(comp, [])
    return lead + ['%d;2;%d;%d;%d' % (code, r, g, b)]


def exp_256(n, comp):
    code = {'fg': 38, 'bg': 48, 'ul': 58, 'dul': 58}[comp]
    lead = {'ul': ['4'], 'dul': ['21']}.get(comp, [])
    return lead + ['%d;5;%d' % (code, n)]


def num(x, hexa):
    return ('0x%x' % x) if hexa else str(x)


def eval_helper(case):
    o = Outcome()
    kind, comp, args = case['kind'], case['comp'], case['args']
    hexa, br, sp, uk, pre = case['hex'], case['br'], case['sp'], case['uk'], case['pre']
    forms = {}
    prefix = {'fg': 'fg_' if pre else '', 'bg': 'bg_', 'ul': 'ul_', 'dul': 'dul_'}[comp]
    if kind == 'rgb':
        if len(args) not in (1, 3):
            raise HarnessError('args')
        exp = exp_rgb(args, comp)
        forms['generic'] = lambda: AnsiFormat.rgb(*args, component=COMP[comp])
        forms['named'] = lambda: getattr(AnsiFormat, {'fg': 'fg_rgb', 'bg': 'bg_rgb', 'ul': 'ul_rgb', 'dul': 'dul_rgb'}[comp])(*args)
        if all(a >= 0 for a in args):
            sep = ', ' if sp else ','
            hx = case.get('hexes') or [hexa] * 3
            inner = sep.join(num(a, hx[i % len(hx)]) for i, a in enumerate(args))
            if sp:
                inner = ' ' + inner + ' '
            inner = {0: inner, 1: '[' + inner + ']', 2: '(' + inner + ')'}[br]
            forms['string'] = lambda: prefix + 'rgb(' + inner + ')'
    else:
        n = args[0]
        if not 0 <= n <= 255:
            o.skipped = 'color256-out-of-range-not-claimed'
            AnsiFormat.color256(n, COMP[comp])
            return o
        exp = exp_256(n, comp)
        word = 'colour256' if uk else 'color256'
        forms['generic'] = lambda: getattr(AnsiFormat, word)(n, COMP[comp])
        forms['named'] = lambda: getattr(AnsiFormat, {'fg': 'fg_', 'bg': 'bg_', 'ul': 'ul_', 'dul': 'dul_'}[comp] + word)(n)
        inner = num(n, hexa)
        if sp:
            inner = ' ' + inner + ' '
        inner = {0: inner, 1: '[' + inner + ']', 2: '(' + inner + ')'}[br]
        forms['string'] = lambda: prefix + word + '(' + inner + ')'
    desc = '%s %s %r' % (kind, comp, args)
    # a helper result belongs to the caller: changing it must not change what the next call (or the string form) gives
    first = forms['generic']()
    if isinstance(first, list):
        first.append(AnsiSetting('9'))
        del first[0]
        again = forms['generic']()
        if [str(x) for x in again] != exp:
            o.fail('helper-result-shared', '%s: after changing the list returned by the helper, the next call returns %r' % (desc, [str(x) for x in again]))
    for k, mk in forms.items():
        f = mk()
        try:
            res = obs_all(f)
        except Exception as e:
            if lib_frame(e)[0] != 'lib':
                raise
            o.fail('helper-rejected:' + k, '%s as %s (%r) raised %s: %s' % (desc, k, f, type(e).__name__, e))
            continue
        for which, r in zip(('constructor', 'apply_formatting', 'AnsiStr'), res):
            if list(r[0]) != exp:
                o.fail('helper-differs:' + k, '%s as %s (%r) via %s reports %r expected %r' % (desc, k, f, which, r[0], exp))
                break
        if k == 'string':
            got = format(AnsiString('x'), ':' + f)
            if got != res[0][1]:
                o.fail('helper-spec-differs', '%s: format spec %r gives %r, constructor %r' % (desc, f, got, res[0][1]))
        v = AnsiString('x', f)
        inrange = all(0 <= a <= (255 if len(args) == 3 or kind != 'rgb' else 0xFFFFFF) for a in args)
        if not (v.is_formatting_valid() and v.is_formatting_parsable()):
            o.fail('helper-not-parsable', '%s as %s' % (desc, k))
    o.nontrivial = 'string' in forms
    o.label(kind, comp, 'shape:%d' % len(args))
    return o


def strat_helper():
    val8 = st.sampled_from([-1, 0, 1, 127, 128, 255, 256, 300, 1000]) | st.integers(-5, 300)
    val24 = st.sampled_from([0, 1, 255, 256, 0xFFFF, 0x10000, 0xABCDEF, 0xFFFFFF, 0x1000000, 0x1ABCDEF]) | st.integers(0, 0x1FFFFFF)
    rgb = st.one_of(st.lists(val8, min_size=3, max_size=3), st.lists(val24, min_size=1, max_size=1))
    c256 = st.lists(st.sampled_from([0, 1, 127, 255, 256, -1]) | st.integers(0, 255), min_size=1, max_size=1)
    base = dict(comp=st.sampled_from(['fg', 'bg', 'ul', 'dul']), hex=st.booleans(), hexes=st.lists(st.booleans(), min_size=3, max_size=3), br=st.integers(0, 2), sp=st.booleans(),
                uk=st.booleans(), pre=st.booleans())
    return st.one_of(st.fixed_dictionaries(dict(base, kind=st.just('rgb'), args=rgb)),
                     st.fixed_dictionaries(dict(base, kind=st.just('c256'), args=c256)))


# ---------------------------------------------------------------- nested / several directives
LEAVES = [
    ({'k': 'name', 'v': 'bold'}, ['1']), ({'k': 'name', 'v': 'Red'}, ['31']), ({'k': 'name', 'v': 'no bold-faint'}, ['22']),
    ({'k': 'fmt', 'v': 'UL_RED'}, ['4', '58;5;9']), ({'k': 'fmt', 'v': 'ORANGE'}, ['38;5;214']), ({'k': 'verb', 'v': '38;5;3'}, ['38;5;3']),
    ({'k': 'verb', 'v': '1;31'}, ['1;31']), ({'k': 'aset', 'v': '44'}, ['44']), ({'k': 'rgbs', 'v': 'bg_rgb(1,2,3)'}, ['48;2;1;2;3']),
    ({'k': 'rgbs', 'v': 'dul_colour256(0x10)'}, ['21', '58;5;16']), ({'k': 'rgb', 'a': [300, 0, -4], 'c': 'fg'}, ['38;2;255;0;0']),
    ({'k': 'name', 'v': 'bold;red'}, ['1', '31']), ({'k': 'name', 'v': 'italic;;blue;'}, ['3', '34']),
    ({'k': 'ints', 'v': [4]}, None), ({'k': 'ints', 'v': [38, 5, 200]}, None), ({'k': 'ints', 'v': [1, 48, 2, 1, 2, 3, 3]}, None),
    ({'k': 'ints', 'v': [0]}, None), ({'k': 'ints', 'v': [56]}, None), ({'k': 'ints', 'v': [58, 5, 9, 24]}, None),
    ({'k': 'intstr', 'v': '4;38;5;200'}, None), ({'k': 'intstr', 'v': '01;031'}, None), ({'k': 'intstr', 'v': '22'}, None),
    ({'k': 'empty', 'v': ''}, []), ({'k': 'emptylist', 'v': []}, []),
]


def group_ints(ints):
    """reference reading of an integer run as settings (complete groups only are generated)."""
    out = []
    i = 0
    while i < len(ints):
        c = ints[i]
        if c in (38, 48, 58) and i + 2 < len(ints) and ints[i + 1] == 5:
            out.append(';'.join(str(x) for x in ints[i:i + 3]))
            i += 3
        elif c in (38, 48, 58) and i + 4 < len(ints) and ints[i + 1] == 2:
            out.append(';'.join(str(x) for x in ints[i:i + 5]))
            i += 5
        else:
            out.append(str(c))
            i += 1
    return out


def build_tree(tree):
    """tree: int (leaf index) or {'l': [...]} / {'t': [...]}.  Returns (python object, flat leaf list)."""
    if isinstance(tree, int):
        spec, _ = LEAVES[tree % len(LEAVES)]
        k = spec['k']
        if k in ('name', 'rgbs'):
            return spec['v'], [tree]
        if k == 'fmt':
            return AnsiFormat[spec['v']], [tree]
        if k == 'verb':
            return '[' + spec['v'], [tree]
        if k == 'aset':
            return AnsiSetting(spec['v']), [tree]
        if k == 'rgb':
            return AnsiFormat.rgb(*spec['a'], component=COMP[spec['c']]), [tree]
        if k == 'ints':
            return ('INTS', list(spec['v'])), [tree]
        if k == 'intstr':
            return spec['v'], [tree]
        if k == 'empty':
            return '', [tree]
        if k == 'emptylist':
            return [], [tree]
        raise HarnessError(k)
    items = tree.get('l', tree.get('t'))
    objs = []
    flat = []
    for it in items:
        ob, fl = build_tree(it)
        if isinstance(ob, tuple) and ob and ob[0] == 'INTS':
            objs.extend(ob[1])      # integer leaves are spliced into the enclosing sequence
        else:
            objs.append(ob)
        flat += fl
    return (objs if 'l' in tree else tuple(objs)), flat


def expected_flat(flat):
    out = []
    run = []
    for li in flat:
        spec, exp = LEAVES[li % len(LEAVES)]
        if spec['k'] == 'ints':
            run += spec['v']
        elif spec['k'] == 'intstr':
            run += [int(x) for x in spec['v'].split(';')]
        elif spec['k'] in ('empty', 'emptylist'):
            # an empty string contributes nothing and does not break an integer run; an empty list does not either
            continue
        else:
            if run:
                out += group_ints(run)
                run = []
            out += exp
    if run:
        out += group_ints(run)
    return out


def eval_nested(case):
    o = Outcome()
    tree = case['tree']
    if isinstance(tree, int):
        tree = {'l': [tree]}
    obj, flat = build_tree(tree)
    exp = expected_flat(flat)
    try:
        res = obs_all(obj)
    except Exception as e:
        if lib_frame(e)[0] != 'lib':
            raise
        o.fail('nested-rejected', '%r raised %s: %s' % (obj, type(e).__name__, e))
        return o
    for which, r in zip(('constructor', 'apply_formatting', 'AnsiStr'), res):
        if list(r[0]) != exp:
            o.fail('nested-differs', '%r via %s reports %r; leaves in order give %r' % (obj, which, r[0], exp))
            break
    # as separate constructor arguments
    if isinstance(obj, (list, tuple)) and obj:
        v = AnsiString('x', *obj)
        got = [str(x) for x in v.ansi_settings_at(0)]
        if got != exp:
            o.fail('varargs-differs', 'AnsiString("x", *%r) reports %r expected %r' % (obj, got, exp))
    o.nontrivial = len(flat) >= 2
    o.label('leaves:%d' % min(len(flat), 6))
    return o


def strat_nested():
    leaf = st.integers(0, len(LEAVES) - 1)
    tree = st.recursive(leaf, lambda ch: st.one_of(st.lists(ch, max_size=4).map(lambda l: {'l': l}),
                                                   st.lists(ch, max_size=4).map(lambda l: {'t': l})), max_leaves=8)
    return st.fixed_dictionaries({'tree': tree})


# ---------------------------------------------------------------- mutated helper strings
import re as _re
_VAL = r'(?:0x[0-9a-fA-F]+|[0-9]+)'
HELPER_GRAMMAR = _re.compile(r'^(?:fg_|bg_|ul_|dul_)?(?:rgb\([\[(]?%s(?:,%s,%s)?[\])]?\)|colou?r256\([\[(]?%s[\])]?\))$' % (_VAL, _VAL, _VAL, _VAL))


def eval_mutated(case):
    """a valid helper string with one or two characters inserted / appended / deleted (no blanks involved): unless the result is
    again inside the documented syntax it must raise ValueError"""
    o = Outcome()
    base = case['base']
    s_ = base
    if case.get('upper'):
        # letter-case variants of a valid helper string: the statement promises any letter case for names only, so a
        # variant may be rejected (ValueError) - but if it is accepted it must mean what the lower-case form means
        s_ = ''.join(c.upper() if i in case['upper'] else c for i, c in enumerate(base))
        want = [str(x) for x in AnsiString('x', base).ansi_settings_at(0)]
        for nm, fn in (('constructor', lambda: AnsiString('x', s_)), ('AnsiStr', lambda: AnsiStr('x', s_)),
                       ('apply_formatting', lambda: AnsiStr('x').apply_formatting(s_)), ('list', lambda: AnsiString('x', [s_]))):
            try:
                got = [str(x) for x in fn().ansi_settings_at(0)]
            except ValueError:
                o.label('case-variant-rejected')
                continue
            except Exception as e:
                if lib_frame(e)[0] != 'lib':
                    raise
                o.fail('mutated-wrong-error', '%r via %s raised %s' % (s_, nm, type(e).__name__))
                continue
            o.label('case-variant-accepted')
            if got != want:
                o.fail('case-variant-means-something-else', '%r via %s reports %r; %r reports %r' % (s_, nm, got, base, want))
        o.nontrivial = s_ != base
        return o
    for pos, ch in case['edits']:
        pos = pos % (len(s_) + 1)
        if ch is None:
            s_ = s_[:pos] + s_[pos + 1:]
        else:
            s_ = s_[:pos] + ch + s_[pos:]
    if ' ' in s_ or ';' in s_ or s_ == '' or s_.startswith('['):
        o.skipped = 'outside-mutation-alphabet'
        return o
    try:
        AnsiFormat[s_.upper().replace('-', '_')]
        o.skipped = 'became-a-name'
        return o
    except KeyError:
        pass
    if _re.fullmatch('[0-9]+', s_):
        o.skipped = 'became-a-code'
        return o
    ok = bool(HELPER_GRAMMAR.match(s_))
    for nm, fn in (('constructor', lambda: AnsiString('x', s_)), ('AnsiStr', lambda: AnsiStr('x', s_)),
                   ('spec', lambda: format(AnsiString('x'), ':' + s_))):
        try:
            fn()
            accepted = True
        except ValueError:
            accepted = False
        except Exception as e:
            if lib_frame(e)[0] != 'lib':
                raise
            o.fail('mutated-wrong-error', '%r via %s raised %s' % (s_, nm, type(e).__name__))
            continue
        if accepted and not ok:
            o.fail('malformed-helper-accepted', '%r (from %r) accepted via %s' % (s_, base, nm))
        if not accepted and ok:
            o.fail('wellformed-helper-rejected', '%r (from %r) rejected via %s' % (s_, base, nm))
    o.nontrivial = s_ != base
    o.label('in-grammar' if ok else 'malformed')
    return o


def strat_mutated():
    base = st.sampled_from(['rgb(1,2,3)', 'bg_rgb(0x10,32,99)', 'ul_rgb(0xABCDEF)', 'dul_rgb([1,2,3])', 'fg_rgb((7,8,9))', 'color256(17)',
                            'bg_colour256(0x10)', 'ul_color256([5])', 'rgb(255,255,255)', 'dul_colour256(200)'])
    edit = st.tuples(st.integers(0, 30), st.sampled_from(['x', ')', '(', ',', '1', 'g', ']', '[', '0', 'f', '_', None, None]))
    edited = st.fixed_dictionaries({'base': base, 'edits': st.lists(edit, min_size=1, max_size=2).map(lambda l: [list(x) for x in l])})
    cased = st.fixed_dictionaries({'base': base, 'edits': st.just([]),
                                   'upper': st.one_of(st.just(list(range(12))), st.lists(st.integers(0, 11), min_size=1, max_size=4, unique=True).map(sorted))})
    return gen.weighted((5, edited), (1, cased))


# ---------------------------------------------------------------- spellings inside a history
HIST_NAMES = ['red', 'blue', 'bold', 'faint', 'underline', 'bg_red', 'orange', 'ul_red', 'no_bold_faint', 'fg_default',
              '@rgb', '@c256', '@ulrgb']
HELPER_SPELLINGS = {
    '@rgb': (lambda: AnsiFormat.rgb(10, 20, 30), ['rgb(10,20,30)', 'rgb(10, 20, 30)', 'fg_rgb(0x0a,20,30)', 'rgb(0x0a141e)', '38;2;10;20;30', [38, 2, 10, 20, 30]]),
    '@c256': (lambda: AnsiFormat.bg_color256(17), ['bg_color256(17)', 'bg_colour256(0x11)', '48;5;17', [48, 5, 17], 'bg_color256([17])']),
    '@ulrgb': (lambda: AnsiFormat.ul_rgb(1, 2, 3), ['ul_rgb(1,2,3)', 'ul_rgb((1,2,3))', '4;58;2;1;2;3', [4, 58, 2, 1, 2, 3]]),
}


def spell(name, how):
    if name.startswith('@'):
        return HELPER_SPELLINGS[name][1][how % len(HELPER_SPELLINGS[name][1])]
    member = AnsiFormat[name.upper()]
    texts = [str(x) for x in member.ansi_settings]
    ints = [int(x) for t in texts for x in t.split(';')]
    return [member, name, name.upper(), mixed(name), name.replace('_', ' '), name.replace('_', '-').title(), list(ints),
            ';'.join(str(i) for i in ints), ['[' + t for t in texts], [AnsiSetting(t) for t in texts], (member,), [[name]]][how % 12]


def eval_history(case):
    """the same sequence of apply/remove calls, once with AnsiFormat members and once with other spellings, must give
    the same reported settings and rendering (spellings must be interchangeable inside any history, not only on a fresh string)"""
    o = Outcome()
    t = case['t']
    ref = AnsiString(t)
    alt = AnsiString(t)
    alt_s = AnsiStr(t)
    for st_ in case['steps']:
        name, how, a, b, top, rm = st_['n'], st_['how'], st_['a'], st_['b'], st_['top'], st_['rm']
        m = HELPER_SPELLINGS[name][0]() if name.startswith('@') else AnsiFormat[name.upper()]
        f = spell(name, how)
        if rm:
            ref.remove_formatting(m, a, b)
            alt.remove_formatting(f, a, b)
            alt_s = alt_s.remove_formatting(f, a, b)
        else:
            ref.apply_formatting(m, a, b, top)
            alt.apply_formatting(f, a, b, top)
            alt_s = alt_s.apply_formatting(f, a, b, top)
    pr = per_char(ref)
    for nm, v in (('AnsiString', alt), ('AnsiStr', alt_s)):
        if per_char(v) != pr or str(v) != str(ref) or v.to_str(None, False) != ref.to_str(None, False):
            o.fail('history-spelling-differs', '%r on %r: with members %s, with other spellings (%s) %s' % (case['steps'], t, describe(ref), nm, describe(v)))
            break
    o.nontrivial = len(case['steps']) >= 3 and len(set(x['n'] for x in case['steps'])) < len(case['steps'])
    return o


@st.composite
def strat_history(draw):
    n = draw(st.integers(3, 9))
    t = 'abcdefghi'[:n]
    names = draw(st.lists(st.sampled_from(HIST_NAMES), min_size=1, max_size=3))
    steps = []
    for _ in range(draw(st.integers(2, 6))):
        a = draw(st.integers(0, n - 1))
        steps.append({'n': draw(st.sampled_from(names)), 'how': draw(st.integers(0, 11)), 'a': a,
                      'b': draw(st.one_of(st.none(), st.integers(a + 1, n))), 'top': draw(st.sampled_from([True, True, False])),
                      'rm': draw(st.sampled_from([False, False, False, True]))})
    return {'t': t, 'steps': steps}


# ---------------------------------------------------------------- errors
BAD = [
    ('unknown-name', 'nope', ValueError), ('unknown-name', 'bold1', ValueError), ('unknown-name', 're d', ValueError),
    ('unknown-name', 'bold;nope', ValueError), ('unknown-name', 'fg_', ValueError), ('unknown-name', '_red', ValueError),
    ('negative', -1, ValueError), ('negative', [1, -5], ValueError), ('negative', '-3', ValueError), ('negative', '1;-2', ValueError),
    ('malformed-rgb', 'rgb(1,2)', ValueError), ('malformed-rgb', 'rgb()', ValueError), ('malformed-rgb', 'rgb(1,2,3,4)', ValueError),
    ('malformed-rgb', 'rgb(1,2,3', ValueError), ('malformed-rgb', 'rgb(ff,0,0)', ValueError), ('malformed-rgb', 'rgb(-1,2,3)', ValueError),
    ('malformed-rgb', 'xx_rgb(1,2,3)', ValueError), ('malformed-rgb', 'rgb(1;2;3)', ValueError), ('malformed-rgb', 'rgb(0x,1,2)', ValueError),
    ('malformed-rgb', 'rgb(1,2,3)x', ValueError), ('malformed-rgb', 'rgb(1,2,3)rgb(4,5,6)', ValueError), ('malformed-rgb', 'xrgb(1,2,3)', ValueError),
    ('malformed-rgb', 'bg_rgb(0x10)1', ValueError), ('malformed-color', 'bg_color256(17) bright', ValueError),
    ('malformed-color', 'color256(x)', ValueError), ('malformed-color', 'color256()', ValueError), ('malformed-color', 'colour256(1,2)', ValueError),
    ('malformed-color', 'color255(1)', ValueError), ('malformed-color', 'bg_color256(ff)', ValueError),
    ('type', 1.5, TypeError), ('type', [None], TypeError), ('type', object(), TypeError), ('type', b'red', TypeError),
    ('type', ['bold', 2.0], TypeError), ('type', {'a': 1}, TypeError), ('type', [{'red'}], TypeError),
]


def mk_selfref(kind):
    a = ['bold']
    if kind == 0:
        a.append(a)
        return a
    if kind == 1:
        b = [a]
        a.append(b)
        return a
    if kind == 2:
        b = ['red', ('x', a)]
        b[1] = (a,)
        a.append(b)
        return [a]
    c = [[[]]]
    c[0][0].append(c)
    return c


def eval_error(case):
    o = Outcome()
    i = case['i']
    if i < len(BAD):
        tag, form, exc = BAD[i]
    else:
        tag, form, exc = 'self-containing', mk_selfref(i - len(BAD)), ValueError
    wrap = case['wrap']
    f = form if wrap == 0 else ([form] if wrap == 1 else ['red', (form,)])
    base = AnsiString('abc', 'italic')
    before = (base.base_str, per_char(base), str(base))
    for nm, fn in (('constructor', lambda: AnsiString('x', f)), ('apply_formatting', lambda: base.apply_formatting(f, 1)),
                   ('AnsiStr', lambda: AnsiStr('x', f)), ('remove_formatting', lambda: base.remove_formatting(f)),
                   ('find_settings', lambda: base.find_settings(f))):
        try:
            fn()
            o.fail('bad-accepted:' + tag, '%s accepted %r' % (nm, form if tag != 'self-containing' else 'self-containing list'))
        except exc:
            pass
        except RecursionError:
            o.fail('bad-recursion:' + tag, nm)
        except Exception as e:
            if lib_frame(e)[0] != 'lib':
                raise
            o.fail('bad-wrong-error:' + tag, '%s with %r raised %s (%s), expected %s' % (
                nm, form if tag != 'self-containing' else 'self-containing list', type(e).__name__, e, exc.__name__))
        if (base.base_str, per_char(base), str(base)) != before:
            o.fail('bad-modified-receiver:' + tag, '%s: receiver now %s' % (nm, describe(base)))
            break
    if isinstance(form, str) and tag != 'type':
        try:
            format(AnsiString('x'), ':' + form)
            o.fail('bad-accepted-spec:' + tag, form)
        except ValueError:
            pass
    o.nontrivial = True
    o.label(tag)
    return o


def enum_errors(tier):
    for i in range(len(BAD) + 4):
        for w in range(3):
            yield {'i': i, 'wrap': w}


def self_test():
    assert exp_rgb([300, 0, -4], 'fg') == ['38;2;255;0;0'] and exp_rgb([0xABCDEF], 'ul') == ['4', '58;2;171;205;239']
    assert group_ints([1, 48, 2, 1, 2, 3, 3]) == ['1', '48;2;1;2;3', '3'] and group_ints([4, 38, 5, 200]) == ['4', '38;5;200']


SUBS = [
    Sub('names', eval_name, enumerate=enum_names, rule='every AnsiFormat name x 14 spellings x 3 entry points + format spec',
        exhaustive_note='all names in AnsiFormat.__members__ (aliases included)'),
    Sub('codes', eval_code, enumerate=enum_codes, exhaustive_note='all SGR codes 0..255 as int/str/padded/verbatim'),
    Sub('helpers', eval_helper, strategy=strat_helper, quick=500, thorough=8000),
    Sub('nested', eval_nested, strategy=strat_nested, quick=500, thorough=8000),
    Sub('mutated_helpers', eval_mutated, strategy=strat_mutated, quick=400, thorough=6000,
        rule='valid rgb()/color256() strings with 1-2 characters inserted, appended or deleted, classified by an own grammar'),
    Sub('spelling_history', eval_history, strategy=strat_history, quick=500, thorough=8000,
        rule='2-6 apply/remove calls on nested ranges re-using 1-3 names in 12 spellings, compared with the same calls using AnsiFormat members'),
    Sub('errors', eval_error, enumerate=enum_errors, exhaustive_note='fixed table of invalid forms x 3 wrappings x 5 entry points'),
]
