"""C13 -- AnsiStr is equivalent to AnsiString; its str payload equals its rendering."""
import io
from hypothesis import strategies as st
from vlib.core import Sub, Outcome, HarnessError, lib_frame
from vlib import gen
from vlib.interp import (Interp, BuilderInvalid, Rejected, per_char, change_points, describe, renders, mk_settings, apply_op)
from ansi_string import AnsiString, AnsiStr

RULE = ('constructor matrix: source in {plain str, ANSI-coded str, AnsiString, AnsiStr} (formatted or not) x settings in {none, '
        'one, several, nested}; twin mode: the same generated operation sequence is applied step by step to an AnsiString '
        '(non-in-place form, on a copy) and to its AnsiStr twin, for every method the two classes share, comparing text, '
        'per-character settings, all 8 renderings, format() under several specs and result types after every step; scalar '
        'queries compared too. Non-trivial = constructor from a formatted object plus settings, or >=2 steps on a value '
        'with >=2 change points; distinct by case. Scalar queries are called with argument variants (encode with 6 codec / error '
        'handler pairs, bounds, tuples) and compared by value or exception type; sub-check twin_raw_text runs the twin on values '
        'whose base text contains escape sequences.')
ASSUMPTIONS = ['in-place-only operations of AnsiString (assign_str, set_ansi_str, copy) have no AnsiStr counterpart and are not twinned']

CFG = gen.Cfg(esc=True, odd=0.15, invalid=True, incomplete=False, max_ops=4, cls_s=0.0)
SPECS = ['', '>12', '*^9:red', 'x-<7:bold', ':underline']


def payload_ok(o, a, where):
    r = a.to_str()
    if str.__str__(a) != r or str(a) != r or '%s' % a != r or '{}'.format(a) != r:
        o.fail('payload', '%s: payload %r, rendering %r' % (where, str.__str__(a), r))
        return
    buf = io.StringIO()
    buf.write(a)
    if buf.getvalue() != r:
        o.fail('payload-write', '%s: file.write stored %r, rendering %r' % (where, buf.getvalue(), r))


def compare(o, S, s, where):
    """S: AnsiString result, s: AnsiStr result."""
    if not isinstance(S, AnsiString) or type(s) is not AnsiStr:
        o.fail('result-type', '%s: AnsiString side %s, AnsiStr side %s' % (where, type(S).__name__, type(s).__name__))
        return False
    if S.base_str != s.base_str or per_char(S) != per_char(s):
        o.fail('twin-differs', '%s: AnsiString gives %s, AnsiStr gives %s' % (where, describe(S), describe(s)))
        return False
    if renders(S) != renders(s) or str(S) != str(s):
        o.fail('twin-render-differs', '%s: %r vs %r' % (where, renders(S), renders(s)))
        return False
    for sp in SPECS:
        a, b = format(S, sp), format(s, sp)
        if a != b or S.to_str(sp) != s.to_str(sp):
            o.fail('twin-format-differs', '%s: format(%r): %r vs %r' % (where, sp, a, b))
            return False
    payload_ok(o, s, where)
    return True


def mk_source(src):
    k = src['k']
    if k == 'str':
        return src['t']
    base = AnsiString(src['t'])
    for r in src.get('r', []):
        base.apply_formatting(mk_settings(r['s']), r['a'], r['b'])
    return base if k == 'S' else AnsiStr(base)


def eval_ctor(case):
    o = Outcome()
    srcS = mk_source(case['src'])
    srcs = mk_source(case['src'])
    sets = mk_settings(case['s'])
    where = 'ctor(%s, %r)' % (describe(srcS) if not isinstance(srcS, str) or isinstance(srcS, AnsiStr) else repr(srcS), case['s'])
    try:
        S = AnsiString(srcS, *sets)
    except (ValueError, TypeError) as e:
        try:
            AnsiStr(srcs, *sets)
            o.fail('ctor-error-differs', '%s: AnsiString raised %r, AnsiStr did not' % (where, e))
        except type(e):
            pass
        return o
    s = AnsiStr(srcs, *sets)
    compare(o, S, s, where)
    if not isinstance(srcs, str) or isinstance(srcs, AnsiStr):
        # sources untouched
        ref = mk_source(case['src'])
        if per_char(srcs) != per_char(ref) or srcs.base_str != ref.base_str:
            o.fail('ctor-source-modified', where)
    # the AnsiStr must not stay connected to a mutable source
    if isinstance(srcs, AnsiString):
        snap_before = (s.base_str, per_char(s), renders(s), str.__str__(s))
        srcs.apply_formatting('italic')
        srcs.upper(inplace=True)
        srcs += 'Q'
        if (s.base_str, per_char(s), renders(s), str.__str__(s)) != snap_before:
            o.fail('ctor-result-follows-source', '%s: after mutating the AnsiString source the AnsiStr is %s' % (where, describe(s)))
        payload_ok(o, s, where + ' after source mutation')
    # conversions round
    back = AnsiString(s)
    if back.base_str != S.base_str or per_char(back) != per_char(S) or not (back == S):
        o.fail('conversion-differs', '%s: AnsiString(AnsiStr(..)) = %s, direct = %s' % (where, describe(back), describe(S)))
    formatted_src = (not isinstance(srcS, str) or isinstance(srcS, AnsiStr)) and any(per_char(srcS))
    o.nontrivial = bool(sets) and (formatted_src or '\x1b' in case['src']['t'])
    o.label('src:' + case['src']['k'], 'settings:%d' % len(case['s']))
    return o


CONTAINER = ('split', 'rsplit', 'splitlines', 'partition', 'rpartition')


def run_op(v, op, operand):
    """like apply_op but returns the raw container for piece-producing methods"""
    n = op['op']
    if n in ('split', 'rsplit'):
        return getattr(v, n)(op.get('sep'), op.get('n', -1))
    if n == 'splitlines':
        return v.splitlines(op.get('keep', False))
    if n in ('partition', 'rpartition'):
        return getattr(v, n)(op['sep'])
    return apply_op(v, op, operand)


def eval_twin(case):
    o = Outcome()
    ip = Interp()
    prog = case['p']
    try:
        base = ip.build_checked({'cls': 'S', 'ctor': prog['ctor'], 'ops': []})
    except BuilderInvalid:
        o.skipped = 'builder_invalid'
        return o
    if case.get('raw') is not None:
        # base text stored as it is (assign_str does not parse): escape sequences in it are ordinary characters
        base.assign_str(case['raw'])
    S = base
    s = AnsiStr(base)
    compare(o, S, s, 'initial')
    steps = 0
    cp_max = change_points(per_char(S))
    for op in prog['ops']:
        if o.fails:
            break
        name = op['op']
        if name in ('assign', 'copy', 'conv', 'iadd'):
            continue
        if len(S) > 250:
            break   # values only grow from here (self-replacement squares the length); the library's replace is quadratic
        if name == 'replace' and op['new'].get('k') in ('self', 'prog') and (not isinstance(op['old'], dict)) and S.base_str.count(op['old']) > 12:
            continue
        op = dict(op)
        op['ip'] = False
        if 'ext' in op:
            op['ext'] = True   # AnsiStr padding has no extend_formatting switch: compare the default behaviour
        where = '%s on %s' % ({k: v for k, v in op.items() if k not in ('x', 'xs', 'new')}, describe(S))

        def operand_for(recv):
            def f(x):
                if x['k'] == 'self':
                    return recv
                if x['k'] == 'str':
                    return x['t']
                return Interp().build(x['p'])
            return f
        resS = resE = ress = rese = None
        c = S.copy()
        try:
            resS = run_op(c, op, operand_for(c))
        except Rejected:
            continue
        except Exception as e:
            if lib_frame(e)[0] != 'lib':
                raise
            resE = e
        try:
            ress = run_op(s, op, operand_for(s))
        except Rejected:
            continue
        except Exception as e:
            if lib_frame(e)[0] != 'lib':
                raise
            rese = e
        if resE is not None or rese is not None:
            if type(resE) is not type(rese):
                o.fail('twin-error-differs', '%s: AnsiString side %r, AnsiStr side %r' % (where, resE, rese))
            o.label('step-raised')
            continue
        steps += 1
        if name in CONTAINER:
            if len(resS) != len(ress) or not isinstance(ress, (list, tuple)):
                o.fail('twin-container', '%s: %d vs %d pieces' % (where, len(resS), len(ress)))
                break
            okc = True
            for a, b in zip(resS, ress):
                okc = compare(o, a, b, where) and okc
            if not okc or not resS:
                continue
            k = op.get('pick', 0) % len(resS)
            S, s = resS[k], ress[k]
        else:
            if not compare(o, resS, ress, where):
                break
            S, s = resS, ress
        cp_max = max(cp_max, change_points(per_char(S)))
        # scalar queries
        t = S.base_str
        probe = t[1:3] if len(t) > 2 else 'a'
        for q, args in (('count', (probe,)), ('find', (probe,)), ('rfind', (probe, 1)), ('endswith', (probe,)), ('isupper', ()),
                        ('istitle', ()), ('is_formatting_valid', ()), ('is_formatting_parsable', ()), ('is_optimizable', ()),
                        ('settings_at', (0,)), ('find_settings', ('red',)), ('__len__', ()), ('__contains__', (probe,)),
                        ('encode', ()), ('encode', ('ascii', 'replace')), ('encode', ('ascii', 'ignore')), ('encode', ('ascii',)),
                        ('encode', ('utf-16', 'strict')), ('encode', ('latin-1', 'xmlcharrefreplace')), ('encode', ('ascii', 'backslashreplace')),
                        ('count', (probe, 1, -1)), ('find', (probe, -3)), ('rfind', (probe, None, -1)), ('endswith', ((probe, t[-1:]), 0, None)),
                        ('index', (probe, 0, len(t) + 3)), ('rindex', (probe, -len(t) - 2)), ('settings_at', (len(t) - 1,)),
                        ('settings_at', (-1,)), ('find_settings', ('red', 1, None, True)), ('find_settings', ([], 0, 2)),
                        ('to_str', ('>%d' % (len(t) + 2), False, True, False)), ('to_str', (None, True, True, True))):
            rS, rs = qcall(S, q, args), qcall(s, q, args)
            if rS != rs:
                o.fail('twin-query-differs', '%s: %s%r: %r vs %r' % (where, q, args, rS, rs))
            if q == 'encode' and rS[0] == 'ok':
                want = str(S).encode(*args)
                if rS[1] != want:
                    o.fail('encode-differs', '%s: encode%r = %r, str(...).encode gives %r' % (where, args, rS[1], want))
        if [str(x) for x in S.ansi_settings_at(0)] != [str(x) for x in s.ansi_settings_at(0)]:
            o.fail('twin-query-differs', where)
        it = list(s)
        if any(type(x) is not AnsiStr for x in it) or [x.base_str for x in it] != list(t):
            o.fail('twin-iter', where)
        o.label(name)
    o.nontrivial = steps >= 2 and cp_max >= 2
    return o


def qcall(obj, q, args):
    try:
        return ('ok', getattr(obj, q)(*args))
    except (ValueError, UnicodeError, IndexError, TypeError) as e:
        from vlib.core import lib_frame
        return ('exc', type(e).__name__)


def coverage_gap():
    shared = sorted(n for n in set(dir(AnsiStr)) & set(dir(AnsiString))
                    if not n.startswith('_') and callable(getattr(AnsiString, n, None)))
    exercised = {'apply_formatting', 'remove_formatting', 'clip', 'join', 'ljust', 'rjust', 'center', 'zfill', 'replace', 'strip',
                 'lstrip', 'rstrip', 'removeprefix', 'removesuffix', 'lower', 'upper', 'title', 'capitalize', 'swapcase',
                 'casefold', 'expandtabs', 'split', 'rsplit', 'splitlines', 'partition', 'rpartition', 'simplify',
                 'clear_formatting', 'format_matching', 'unformat_matching', 'count', 'find', 'rfind', 'endswith', 'isupper',
                 'istitle', 'is_formatting_valid', 'is_formatting_parsable', 'is_optimizable', 'settings_at', 'find_settings',
                 'ansi_settings_at', 'to_str', 'encode', 'base_str', 'apply_formatting_for_match'}
    # remaining str predicates / index are covered by C10 on both classes
    c10 = {'index', 'rindex', 'isalnum', 'isalpha', 'isascii', 'isdecimal', 'isdigit', 'isidentifier', 'islower', 'isnumeric',
           'isprintable', 'isspace'}
    return [n for n in shared if n not in exercised and n not in c10]


def self_test():
    gap = coverage_gap()
    # apply_formatting_for_match needs a match object; exercised through format_matching
    allowed = set()
    if set(gap) - allowed:
        raise AssertionError('methods shared by AnsiStr and AnsiString that the twin check does not exercise: %r' % gap)


_SP = []


def _specs():
    if not _SP:
        _SP.append(st.one_of(st.just([]), gen.specs(CFG, 1, 3)))
        _SP.append(st.one_of(gen.texts(0, 6), gen.ansi_text(CFG)))
    return _SP


@st.composite
def strat_ctor(draw):
    names = ['red', 'bold', 'blue', 'underline', 'bg_red', 'no_bold_faint']
    k = draw(st.sampled_from(['str', 'str', 'S', 'S', 's', 's']))
    if k == 'str':
        t = draw(_specs()[1])
        src = {'k': 'str', 't': t}
    else:
        t = draw(gen.texts(0, 6))
        rs = []
        for _ in range(draw(st.integers(0, 2))):
            a = draw(st.integers(0, 4))
            rs.append({'s': [{'k': 'name', 'v': draw(st.sampled_from(names))}], 'a': a, 'b': draw(st.one_of(st.none(), st.integers(a + 1, 7)))})
        src = {'k': k, 't': t, 'r': rs}
    s = draw(_specs()[0])
    return {'src': src, 's': s}


TWIN_OPS = [x for x in gen.BUILD_OPS if x not in ('assign', 'copy', 'conv', 'iadd')] + ['simplify', 'clear', 'add', 'join', 'index', 'applymatch', 'applymatch']


def strat_twin():
    import copy
    cfg = copy.copy(CFG)
    cfg.ops = TWIN_OPS
    return st.fixed_dictionaries({'p': gen.progs(cfg)})


def strat_twin_focus():
    """two-letter alphabet for texts, patterns, separators and plain-str operands: replace / split / strip / partition hit on
    almost every call, matches span style change points, equal-length replacements are common"""
    cfg = gen.Cfg(esc=False, odd=0.05, invalid=False, max_ops=3, cls_s=0.0, alphabet='aab', min_text=3, max_text=9, rich=True, ansi_ctor=False,
                  ops=['replace'] * 6 + ['split', 'rsplit', 'partition', 'rpartition', 'strip', 'lstrip', 'rstrip', 'rmprefix', 'rmsuffix', 'case',
                                         'expandtabs', 'fmtmatch', 'unfmtmatch', 'slice', 'add', 'join', 'ljust', 'center'])
    return st.fixed_dictionaries({'p': gen.prog(cfg)})


def strat_twin_raw():
    import copy
    cfg = copy.copy(CFG)
    cfg.ops = ['clear', 'clear', 'simplify', 'slice', 'clip', 'split', 'rsplit', 'splitlines', 'partition', 'replace', 'replace', 'strip', 'case',
               'ljust', 'center', 'add', 'join', 'apply', 'remove', 'fmtmatch', 'unfmtmatch', 'index', 'expandtabs', 'rmprefix', 'rmsuffix']
    cfg.max_ops = 3
    raw = st.lists(st.sampled_from(['a', 'b', ' ', '\x1b[1m', '\x1b[31m', '\x1b[m', '\x1b[2K', '\x1b', '[', 'm', '\n']), min_size=1, max_size=8).map(''.join)
    return st.fixed_dictionaries({'p': gen.prog(cfg), 'raw': raw})


SUBS = [
    Sub('twin_focus', eval_twin, strategy=strat_twin_focus, quick=400, thorough=6000,
        rule='twin mode on two-letter texts with position-dependent formatting, replace-heavy'),
    Sub('twin_raw_text', eval_twin, strategy=strat_twin_raw, quick=250, thorough=4000,
        rule='twin mode on values whose base text contains escape sequences (stored with assign_str), every shared method'),
    Sub('ctor', eval_ctor, strategy=strat_ctor, quick=500, thorough=8000),
    Sub('twin', eval_twin, strategy=strat_twin, quick=500, thorough=8000),
]
