"""C18 -- SGR code-list parsing (parse_graphic_sequence / settings_to_dict) agrees with a terminal."""
import itertools, copy
from hypothesis import strategies as st
from vlib.core import Sub, Outcome
from vlib import sgrterm, gen
from ansi_string import parse_graphic_sequence, settings_to_dict
from ansi_string.ansi_format import AnsiSetting

RULE = ('code lists over {0,1,2,4,22,24,31,39,38,48,58,5,200,56,99,256}: exhaustive to length 4 (quick) / 5 '
        '(thorough), generated to length 14 with complete extended-colour groups at any position, given as '
        '";"-string (blanks, leading zeros), list of int, list of str or mixed; x add_erroneous; prior states '
        'reached by reducing another generated list. Non-trivial = the list has an extended-colour group that is '
        'not first, or a clear/reset after an apply of the same group; distinct by (tokens, form, flag, prior).')
ASSUMPTIONS = [
    'ambiguity classes generated but style not asserted: empty token inside a non-empty list, 38/48/58 not followed '
    'by a complete 5;n / 2;r;g;b group, colour values > 255, non-numeric tokens',
    'settings_to_dict is exercised on settings produced by parse_graphic_sequence (one group per setting)',
    'whether parse_graphic_sequence may normalise a list argument in place is not claimed and not asserted',
]

EFFECT_SLOT = {'BOLDNESS': 'bold', 'ITALICS': 'ital', 'UNDERLINE': 'ul', 'OVERLINE': 'over', 'BLINKING': 'blink',
               'SWAP_BG_FG': 'swap', 'VISIBILITY': 'hide', 'CROSSED_OUT': 'strike', 'FONT_TYPE': 'font',
               'SPACING': 'space', 'BOXING': 'box', 'FG_COLOR': 'fg', 'BG_COLOR': 'bg', 'UL_COLOR': 'ulc'}

ALPHA = [0, 1, 2, 4, 22, 24, 31, 39, 38, 48, 58, 5, 200, 56, 99, 256]


def mk_input(toks, form):
    """toks: list of str tokens.  Returns the object passed to parse_graphic_sequence."""
    if form == 'str':
        return ';'.join(toks)
    if form == 'ints':
        return [int(t) if t.strip().isdigit() else t for t in toks]
    if form == 'strs':
        return list(toks)
    out = []
    for i, t in enumerate(toks):
        out.append(int(t) if (i % 2 == 0 and t.strip().isdigit()) else t)
    return out


def dict_state(d, o, where):
    """Relabel a library effect dict as a reference-terminal state; checks key/value consistency."""
    texts = []
    for k, v in d.items():
        if not hasattr(k, 'name'):
            o.fail('dict-foreign-key', '%s: key %r' % (where, k))
            continue
        slot = EFFECT_SLOT.get(k.name)
        g = sgrterm.groups_of(str(v))
        if slot is None or g != {slot}:
            o.fail('dict-key-mismatch', '%s: key %s holds setting %r touching %s' % (where, k.name, str(v), sorted(g)))
        texts.append(str(v))
    stt, amb = sgrterm.reduce_settings(texts)
    return stt


def int_tokens(toks):
    out = []
    for t in toks:
        t2 = t.strip()
        try:
            out.append(int(t2))
        except ValueError:
            out.append(None)
    return out


def eval_case(case):
    o = Outcome()
    toks = case['toks']
    form = case['form']
    ae = case['ae']
    ints = int_tokens(toks)
    plain = all(t.strip().isdigit() and t.strip().isascii() for t in toks)
    expected = {}
    amb = set()
    if plain:
        amb = sgrterm.apply_codes(expected, [i for i in ints])
    else:
        amb = {'nonnumeric'}
    inp = mk_input(toks, form)
    if not toks or (form == 'str' and all(t == '' for t in toks) and len(toks) == 1):
        for e in ('', []):
            r = parse_graphic_sequence(e, ae)
            if [str(x) for x in r] != ['0']:
                o.fail('empty-not-reset', 'parse_graphic_sequence(%r) -> %r' % (e, [str(x) for x in r]))
        return o
    try:
        res = parse_graphic_sequence(inp, ae)
    except ValueError as e:
        if ae and any(t.strip() == '' for t in toks):
            o.skipped = 'add_erroneous-empty-token-ValueError'
            return o
        raise
    texts = [str(x) for x in res]
    for a in sorted(amb):
        o.label('amb:' + a)
    amb = set(amb) - {'truncated'}   # "incomplete groups ... contribute nothing": determined by the statement, asserted
    if not ae:
        for x in res:
            if not x.valid:
                o.fail('returned-invalid', 'input %r -> setting %r is not valid' % (inp, str(x)))
        d = settings_to_dict(res)
        got = dict_state(d, o, 'input %r' % (inp,))
        if not amb:
            if got != sgrterm.freeze(expected):
                o.fail('state-mismatch', 'input %r -> settings %r -> state %r; terminal state %r' % (
                    case['toks'], texts, got, sgrterm.freeze(expected)))
        else:
            o.skipped = 'ambiguous'
        # prior state
        old_toks = case.get('old') or []
        if old_toks and plain and not amb:
            old_exp = {}
            old_amb = sgrterm.apply_codes(old_exp, [int(t) for t in old_toks])
            if not old_amb:
                old_settings = parse_graphic_sequence(';'.join(old_toks), False)
                old = settings_to_dict(old_settings)
                old_copy = dict(old)
                res_ids = [id(x) for x in res]
                res_txt = [str(x) for x in res]
                d2 = settings_to_dict(res, old)
                d2_state = dict(d2)
                d2['__probe__'] = 1
                if '__probe__' in old:
                    o.fail('result-aliases-old', 'old %r new %r: the returned dict is the old one' % (old_toks, toks))
                d2.pop('__probe__', None)
                if old != old_copy or list(old.keys()) != list(old_copy.keys()):
                    o.fail('old-dict-modified', 'old %r new %r' % (old_toks, toks))
                if [id(x) for x in res] != res_ids or [str(x) for x in res] != res_txt:
                    o.fail('settings-list-modified', 'new %r' % (toks,))
                exp2 = dict(old_exp)
                sgrterm.apply_codes(exp2, [int(t) for t in toks])
                got2 = dict_state(d2, o, 'old %r + %r' % (old_toks, toks))
                if got2 != sgrterm.freeze(exp2):
                    o.fail('state-on-old-mismatch', 'old %r + new %r -> %r; terminal %r' % (old_toks, toks, got2, sgrterm.freeze(exp2)))
                o.label('with-prior')
        # the result must be a fresh state: changing it must neither change `old` nor what a later call starts from
        d['__probe__'] = 1
        d.pop('__probe__')
        d.clear()
        d['__probe__'] = 1
        if settings_to_dict([]) != {}:
            o.fail('default-dict-polluted', 'after changing the dict returned for %r, settings_to_dict([]) == %r (the result aliases the shared default)' % (inp, settings_to_dict([]),))
        d.pop('__probe__', None)
    else:
        flat = []
        for x in res:
            for v in x.to_list():
                if isinstance(v, int):
                    flat.append(v)
        want = [i for i in ints if i is not None]
        if flat != want:
            o.fail('erroneous-int-tokens', 'input %r add_erroneous=True -> %r; integer tokens %r' % (inp, texts, want))
    # non-trivial rule
    nt = False
    if plain:
        for i, c in enumerate(ints):
            if c in (38, 48, 58) and i > 0 and i + 2 < len(ints) and ints[i + 1] in (2, 5):
                nt = True
        seen = set()
        for c in ints:
            if c in sgrterm.APPLY:
                seen.add(sgrterm.APPLY[c])
            elif c in sgrterm.CLEAR and sgrterm.CLEAR[c] in seen:
                nt = True
            elif c == 0 and seen:
                nt = True
    o.nontrivial = nt
    o.label('form:' + form, 'ae' if ae else 'no-ae')
    if nt:
        o.label('nontrivial')
    return o


def enum_lists(tier):
    maxlen = 4 if tier == "quick" else 5
    for L in range(0, maxlen + 1):
        for t in itertools.product(ALPHA, repeat=L):
            toks = [str(x) for x in t]
            yield {'toks': toks, 'form': 'str', 'ae': False, 'old': []}
            yield {'toks': toks, 'form': 'ints', 'ae': True, 'old': []}


def enum_all_codes(tier):
    for n in range(256):
        for toks in ([n], [n, 0], [1, n], [n, 1, n], [0, n]):
            yield {'toks': [str(x) for x in toks], 'form': 'str', 'ae': False, 'old': []}
        yield {'toks': [str(n)], 'form': 'ints', 'ae': True, 'old': ['1', '31']}
        yield {'toks': [str(n)], 'form': 'strs', 'ae': False, 'old': ['4', '107', '38', '5', '7']}


def strat():
    code = st.sampled_from(ALPHA + [3, 7, 9, 10, 11, 21, 23, 49, 59, 91, 101, 53, 55])
    byte = st.one_of(st.integers(0, 255), st.sampled_from([0, 1, 2, 5, 255]))
    ext = st.one_of(
        st.tuples(st.sampled_from([38, 48, 58]), st.just(5), byte).map(list),
        st.tuples(st.sampled_from([38, 48, 58]), st.just(2), byte, byte, byte).map(list),
    )
    chunk = gen.weighted((2, code.map(lambda c: [c])), (1, ext))
    ints = st.lists(chunk, max_size=6).map(lambda ch: [x for c in ch for x in c][:14])

    def deco(args):
        lst, style, odd = args
        toks = []
        for i, x in enumerate(lst):
            s = str(x)
            if style == 1 and i % 3 == 0:
                s = '0' + s
            elif style == 2 and i % 2 == 1:
                s = ' ' + s + ' '
            toks.append(s)
        if odd is not None and toks:
            pos, what = odd
            toks.insert(pos % (len(toks) + 1), what)
        return toks
    odd = gen.weighted((5, st.none()), (1, st.tuples(st.integers(0, 20), st.sampled_from(['', 'x', '1:2', '?1', '300', '38', '58']))))
    toks = st.tuples(ints, st.integers(0, 2), odd).map(deco)
    old = st.one_of(st.just([]), ints.map(lambda l: [str(x) for x in l]))
    return st.fixed_dictionaries({'toks': toks, 'form': st.sampled_from(['str', 'ints', 'strs', 'mixed']),
                                  'ae': st.booleans(), 'old': old})


SUBS = [
    Sub('all_codes', eval_case, enumerate=enum_all_codes, exhaustive_note='every code 0..255 alone, before / after a reset, around bold, on prior states'),
    Sub('lists_exhaustive', eval_case, enumerate=enum_lists,
        rule='all code lists over the 16-symbol alphabet up to length 4 (quick) / 5 (thorough), as ";"-string with add_erroneous=False and as int list with add_erroneous=True',
        exhaustive_note='every list over the 16-symbol code alphabet up to the length bound'),
    Sub('lists_generated', eval_case, strategy=strat, quick=1500, thorough=25000),
]

# thorough tier: atheris / libFuzzer campaigns (fuzz/target.py) with this sub-check's evaluate() as the oracle
FUZZ = [dict(sub='lists_generated', runs=200000, shards=4, seeds=[b'\x00\x01\x08\x0b\x0c', b'\x05\x08\x0b\x01'])]
