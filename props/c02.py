"""C02 -- parsing ANSI-coded input preserves text and appearance."""
import re, itertools
from hypothesis import strategies as st
from vlib.core import Sub, Outcome
from vlib import gen, sgrterm
from vlib.interp import per_char, styles, describe
from ansi_string import AnsiString, AnsiStr

RULE = ('input strings built from tokens: TEXT (may contain "[", lone ESC, newlines, non-ASCII), SGR(body) with bodies from '
        'a code grammar (known apply/clear/reset/unknown codes, complete 38/48/58 groups at any position, leading zeros, '
        'several sequences at one position, at the very start/end), non-SGR CSI sequences, an unterminated tail; a second '
        'free-form generator over {ESC,[,digits,;,:,?,space,m,A,H,x}; a third sub-check enumerates all token strings '
        'over a 9-token alphabet up to length 5/6. Non-trivial = >=1 SGR sequence with >=2 codes and an extended-colour '
        'group that is not first in its sequence, or >=2 SGR sequences; distinct by input string. Every input is also parsed into '
        'three objects that already hold formatted text (set_ansi_str) and must give the state of a fresh construction.')
ASSUMPTIONS = ['style not asserted (text still is) for: empty parameter inside a non-empty sequence, 38/48/58 without a '
               'complete group, colour values > 255, non-numeric parameters',
               'inputs in which some CSI body contains characters outside 0x20-0x3F are only required not to crash '
               '(tokenisation of such input differs between readings of ECMA-48)']

CSI = re.compile('\x1b\\[([^\x40-\x7e]*)([\x40-\x7e])')


def analyse(s):
    """Independent expectation: (text, [(char, state)], tags)."""
    tags = set()
    pos = 0
    while True:
        i = s.find('\x1b[', pos)
        if i < 0:
            break
        m = CSI.match(s, i)
        if not m:
            rest = s[i + 2:]
            if not all(0x20 <= ord(c) <= 0x3f for c in rest):
                tags.add('tokenisation')
            break
        if not all(0x20 <= ord(c) <= 0x3f for c in m.group(1)):
            tags.add('tokenisation')
        pos = m.end()
    cells, fin, amb = sgrterm.run(s, track_unknown=True)
    return ''.join(c[0] for c in cells), cells, tags | amb


def eval_parse(case):
    o = Outcome()
    s = case['s']
    text, cells, tags = analyse(s)
    vals = [AnsiString(s), AnsiStr(s)]
    nseq = len(re.findall('\x1b\\[[\x20-\x3f]*m', s))
    for t in sorted(tags):
        o.label('amb:' + t)
    for v in vals:
        cn = type(v).__name__
        if '\x1b' not in s:
            if v.base_str != s or any(per_char(v)) or str(v) != s:
                o.fail('plain-text-changed', '%s(%r) -> %s renders %r' % (cn, s, describe(v), str(v)))
            continue
        if 'tokenisation' in tags:
            per_char(v)
            str(v)
            continue
        if v.base_str != text:
            o.fail('text', '%s(%r).base_str == %r expected %r' % (cn, s, v.base_str, text))
            continue
        if tags - {'empty', 'nonnumeric', 'incomplete', 'truncated', 'range'}:
            per_char(v)
            str(v)
            continue
        per = per_char(v)
        sty = styles(per)
        for k in range(len(text)):
            unk = cells[k][2]
            if not unk:
                if sty[k] != cells[k][1]:
                    o.fail('style', '%s(%r): char %d %r reports %r = %r; terminal shows %r' % (cn, s, k, text[k], per[k], sty[k], cells[k][1]))
                    break
            else:
                # an earlier sequence was ambiguous: only the effects it could not have touched (or that were set / cleared
                # again since) are determined - those are still asserted
                ds, dt = dict(sty[k]), dict(cells[k][1])
                bad = [g for g in sgrterm.SLOTS if g not in unk and ds.get(g) != dt.get(g)]
                if bad:
                    o.fail('style-determined-part', '%s(%r): char %d %r reports %r: effect %s is %r; terminal shows %r (undetermined effects: %s)' % (
                        cn, s, k, text[k], per[k], bad[0], ds.get(bad[0]), dt.get(bad[0]), sorted(unk)))
                    break
    if tags and '\x1b' in s:
        if 'tokenisation' in tags or 'body-bytes' in tags:
            o.skipped = 'ambiguous-tokenisation'
        else:
            o.label('partly-determined-style')
    # parsing into an object that already holds formatted text (set_ansi_str is the constructor's parser, public): the
    # outcome is the one of a fresh construction, nothing of the earlier content survives
    for old_text in ('qqqqqqqq', 'q', ''):
        w = AnsiString(old_text, 'bold')
        if len(old_text) > 2:
            w.apply_formatting('bg_red', 1, len(old_text) - 1)
            w.apply_formatting('italic', 2, None, topmost=False)
        w.set_ansi_str(s)
        try:
            same = w.base_str == vals[0].base_str and per_char(w) == per_char(vals[0]) and w == vals[0] and str(w) == str(vals[0])
            what = describe(w)
        except Exception as e:
            from vlib.core import lib_frame
            if lib_frame(e)[0] != 'lib':
                raise
            same, what = False, '%s: %s' % (type(e).__name__, e)
        if not same:
            o.fail('reparse-depends-on-old-content', 'AnsiString(%r, bold ...).set_ansi_str(%r) -> %s; a fresh AnsiString(%r) is %s' % (
                old_text, s, what, s, describe(vals[0])))
            break
    if not (vals[0].base_str == vals[1].base_str and per_char(vals[0]) == per_char(vals[1])):
        o.fail('classes-differ', '%r: %s vs %s' % (s, describe(vals[0]), describe(vals[1])))
    nt = nseq >= 2
    for b in re.findall('\x1b\\[([0-9;]*)m', s):
        toks = b.split(';')
        for i, t in enumerate(toks):
            if t in ('38', '48', '58') and i > 0 and i + 2 < len(toks):
                nt = True
    o.nontrivial = nt
    o.label('nseq:%d' % min(nseq, 5))
    if '\x1b' not in s:
        o.label('no-esc')
    return o


CODES = ['0', '1', '2', '3', '4', '7', '9', '21', '22', '23', '24', '31', '34', '39', '41', '49', '53', '55', '56', '99', '10', '11',
         '38;5;200', '38;2;1;2;3', '48;5;7', '48;2;0;255;9', '58;5;1', '58;2;4;5;6', '59', '91', '101', '01', '004', '0031',
         '107', '100', '97', '90', '30', '37', '40', '47', '20', '12', '26', '50', '51', '52', '54', '6', '8', '28', '38;5;38', '48;2;48;2;58']
ODD = ['', '38', '38;5', '38;2;1;2', '48;7', '300', '38;5;256', '1:2', '?1', ' 1', '1 ', '58', '\u00b2', '\u2460', '-1', '+4', '-0', '3\u00b3', '99999999999999999999']


def strat_tokens():
    code = gen.weighted((14, st.sampled_from(CODES)), (1, st.sampled_from(ODD)))
    body = st.lists(code, max_size=5).map(';'.join)
    txt = gen.texts(0, 4, esc=False) | st.sampled_from(['[', '\x1b', 'm', '[1m', '\x1bm', 'é\n', '\x1b]0;t\x07', '\x9b31m', '\x9b', 'a\x9b1;4mb'])
    csi = st.tuples(st.text(alphabet='0123456789;?', max_size=4), st.sampled_from(list('AHJKm~@'))).map(lambda t: '\x1b[' + t[0] + t[1])
    tok = gen.weighted((3, txt), (5, body.map(lambda b: '\x1b[' + b + 'm')), (1, csi))
    tail = gen.weighted((4, st.just('')), (1, st.text(alphabet='0123456789;', max_size=4).map(lambda b: '\x1b[' + b)))
    return st.tuples(st.lists(tok, max_size=9), tail).map(lambda t: {'s': ''.join(t[0]) + t[1]})


def strat_free():
    alpha = ['\x1b[', '\x1b[', '\x1b[', '\x1b', '[', '0', '1', '2', '3', '4', '5', '8', ';', ';', ';', 'm', 'm', 'm', 'm', 'A', 'H', 'x', 'é', 'a', 'b',
             '38;5;', '48;2;1;2;', '58;5;9', '22', '39', '31', '1;', ';4', ':', '?', ' ', '-', '+', '\u00b2', '\u0663', '\x9b', '\x9b']
    return st.lists(st.sampled_from(alpha), max_size=30).map(lambda l: {'s': ''.join(l)})


ENUM_TOKS = ['\x1b[', '1', '0', '38;5;', ';', 'm', 'a', '22', '4']


def enum_small(tier):
    maxlen = 5 if tier == 'quick' else 6
    for L in range(0, maxlen + 1):
        for t in itertools.product(ENUM_TOKS, repeat=L):
            yield {'s': ''.join(t)}


SUBS = [
    Sub('tokens', eval_parse, strategy=strat_tokens, quick=1500, thorough=25000),
    Sub('free', eval_parse, strategy=strat_free, quick=1000, thorough=15000),
    Sub('small_exhaustive', eval_parse, enumerate=enum_small,
        rule='all concatenations of up to 5 (quick) / 6 (thorough) tokens from {ESC[, 1, 0, 38;5;, ;, m, a, 22, 4}',
        exhaustive_note='every token string over the 9-token alphabet up to the length bound'),
]

# thorough tier: atheris / libFuzzer campaigns (fuzz/target.py) with this sub-check's evaluate() as the oracle
FUZZ = [dict(sub='free', runs=150000, shards=4, seeds=[b'\x00\x04\x01\x10', b'\x00\x0b\x02\x07\x02\x05\x01\x11'])]
