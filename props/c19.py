"""C19 -- control-sequence parser is lossless; cursor / erase / scroll helpers emit one sequence."""
import itertools, re
from hypothesis import strategies as st
from vlib.core import Sub, Outcome
import ansi_string
from ansi_string import ParsedAnsiControlSequenceString as P

RULE = ('strings over an alphabet containing ESC, "[", parameter/intermediate bytes, final bytes, '
        'non-ASCII and newline: exhaustive over the 6-symbol core {ESC,[,1,;,m,A} up to a length bound, '
        'generated (free-form and token-structured) up to length 40; each string is parsed under 8 '
        'constructor flag combinations. Non-trivial = the string contains >=2 introducers with text '
        'between them, or a rejected / unterminated sequence; distinct by string. Helpers: every '
        'cursor/erase/scroll function x integer arguments; non-trivial = argument != 1.')
ASSUMPTIONS = [
    'recognised sequence = ESC [ + body + one final byte 0x40-0x7E; where a body contains characters '
    'outside 0x20-0x3F (or outside 0x30-0x3F) the three readings of "parameter bytes" may differ: any of '
    'them is accepted for unformatted_str/sequences, losslessness is asserted for every string',
    'an unterminated sequence (end of input) is recognised iff allow_empty_terminator, independent of '
    'acceptable_terminators',
]

FLAGS = [(ae, acc) for ae in (True, False) for acc in (None, 'm', 'mA', '')]


def tokenize(s, allow_empty, acc, body_re):
    """Independent tokeniser.  body_re: compiled regex matching the body after ESC[.
    Returns (unformatted, {idx: [(body, term)]})."""
    out = []
    outlen = 0
    seqs = {}
    i = 0
    n = len(s)
    while i < n:
        if s.startswith('\x1b[', i):
            m = body_re.match(s, i + 2)
            j = m.end()
            body = m.group()
            if j < n and 0x40 <= ord(s[j]) <= 0x7e:
                term = s[j]
                end = j + 1
                ok = acc is None or term in acc
            elif j >= n:
                term = ''
                end = j
                ok = allow_empty
            else:
                # strict readings only: body followed by a character that is neither body nor final
                out.append(s[i])
                outlen += 1
                i += 1
                continue
            if ok:
                seqs.setdefault(outlen, []).append((body, term))
            else:
                out.append(s[i:end])
                outlen += end - i
            i = end
        else:
            out.append(s[i])
            outlen += 1
            i += 1
    return ''.join(out), seqs


READINGS = [re.compile('[^\x40-\x7e]*'), re.compile('[\x20-\x3f]*'), re.compile('[\x30-\x3f]*[\x20-\x2f]*'),
            re.compile('[\x30-\x3f]*')]


def reinsert(unf, seqs):
    out = []
    last = 0
    for k in sorted(seqs):
        out.append(unf[last:k])
        last = k
        for body, term in seqs[k]:
            out.append('\x1b[' + body + term)
    out.append(unf[last:])
    return ''.join(out)


def eval_parse(case):
    s = case['s']
    o = Outcome()
    n_intro = s.count('\x1b[')
    for ae, acc in FLAGS:
        exps = []
        for r in READINGS:
            e = tokenize(s, ae, acc, r)
            if e not in exps:
                exps.append(e)
        if len(exps) > 1:
            o.label('ambiguous-body-bytes')
        p = P(s, ae, acc)
        unf = p.unformatted_str
        got = {k: [(x.sequence, x.terminator) for x in v] for k, v in p.sequences.items()}
        tag = 'ae=%s,acc=%r' % (ae, acc)
        if (unf, got) not in exps:
            o.fail('tokenise', '%s s=%r: got unformatted=%r sequences=%r expected %r' % (tag, s, unf, got, exps[0]))
        if reinsert(unf, got) != s:
            o.fail('lossless-reinsert', '%s s=%r: reinserting recorded sequences gives %r' % (tag, s, reinsert(unf, got)))
        for nm, f in (('formatted_str', lambda: p.formatted_str), ('str', lambda: str(p)), ('repr', lambda: repr(p))):
            try:
                v = f()
            except Exception as e:
                o.fail('lossless-%s-exc' % nm, '%s s=%r: %s() raised %s: %s' % (tag, s, nm, type(e).__name__, e))
                continue
            if v != s:
                o.fail('lossless-%s' % nm, '%s s=%r: %s gives %r' % (tag, s, nm, v))
        if exps[0][1] and any(len(exps[0][0]) > 0 for _ in [0]):
            pass
    e0 = tokenize(s, True, None, READINGS[0])
    rejected = tokenize(s, False, 'm', READINGS[0])
    o.nontrivial = (n_intro >= 2 and len(e0[1]) >= 2 and len(e0[0]) > 0) or (n_intro >= 1 and rejected[0].count('\x1b[') >= 1)
    if n_intro == 0:
        o.label('no-introducer')
    elif o.nontrivial:
        o.label('nontrivial')
    if s.endswith('\x1b[') or (n_intro and not re.search('[\x40-\x7e]', s[s.rfind('\x1b[') + 2:])):
        o.label('unterminated-tail')
    return o


CORE = ['\x1b', '[', '1', ';', 'm', 'A']


def enum_finals(tier):
    """every final byte 0x40-0x7E (and its two neighbours) in a few fixed frames"""
    for c in range(0x3f, 0x80):
        ch = chr(c)
        for frame in ('a\x1b[1;2%sb', '\x1b[%s', '\x1b[%s\x1b[0%sx', 'a\x1b[%s'):
            yield {'s': frame.replace('%s', ch)}


def enum_core(tier):
    maxlen = 5 if tier == 'quick' else 7
    for L in range(0, maxlen + 1):
        for t in itertools.product(CORE, repeat=L):
            yield {'s': ''.join(t)}


ALPHA = ['\x1b', '[', '0', '1', ';', '?', ' ', 'm', 'A', 'H', 'J', '~', '@', 'x', 'é', '\n', '\x1b[', '\x1b[', '{', '}', '|', '`', '\\', '%', '\x9b', '\x9b', '\x9b1', '\x9d', '\x1b]', '\x90']


def strat_free():
    return st.lists(st.sampled_from(ALPHA), max_size=40).map(lambda l: {'s': ''.join(l)})


def strat_tokens():
    body = st.text(alphabet='0123456789;:?<=> !"', max_size=8)
    final = st.sampled_from(list('mmmAHJK~@[x_{}|`\\^'))
    tok = st.one_of(
        st.text(alphabet='ab[\x1bm1;é\n \x9b', max_size=5),
        st.tuples(body, final).map(lambda t: '\x1b[' + t[0] + t[1]),
        st.tuples(body, final).map(lambda t: '\x1b[' + t[0] + t[1]),
    )
    tail = st.one_of(st.just(''), body.map(lambda b: '\x1b[' + b))
    return st.tuples(st.lists(tok, max_size=8), tail).map(lambda t: {'s': ''.join(t[0]) + t[1]})


HELPERS = {
    'cursor_up_str': ('A', 1, True), 'cursor_down_str': ('B', 1, True), 'cursor_forward_str': ('C', 1, True),
    'cursor_backward_str': ('D', 1, True), 'cursor_back_str': ('D', 1, True),
    'cursor_next_line_str': ('E', 1, True), 'cursor_previous_line_str': ('F', 1, True),
    'cursor_horizontal_absolute_str': ('G', 1, False), 'cursor_position_str': ('H', 2, False),
    'erase_in_display_str': ('J', 1, False), 'erase_in_line_str': ('K', 1, False),
    'scroll_up_str': ('S', 1, False), 'scroll_down_str': ('T', 1, False),
}


def eval_helper(case):
    o = Outcome()
    name = case['fn']
    final, nargs, has_default = HELPERS[name]
    fn = getattr(ansi_string, name)
    args = case['args'][:nargs]
    if case.get('default') and has_default:
        got = fn()
        args = [1]
    else:
        if len(args) < nargs:
            args = (args + [0, 0])[:nargs]
        got = fn(*args)
    exp = '\x1b[' + ';'.join(str(a) for a in args) + final
    if got != exp:
        o.fail('helper-text:' + name, '%s%r -> %r expected %r' % (name, tuple(args), got, exp))
    if not isinstance(got, str):
        o.fail('helper-type:' + name, repr(got))
        return o
    p = P(got)
    seqs = [(k, [(x.sequence, x.terminator) for x in v]) for k, v in p.sequences.items()]
    if p.unformatted_str != '' or len(seqs) != 1 or len(seqs[0][1]) != 1 or seqs[0][1][0][1] != final or seqs[0][0] != 0:
        o.fail('helper-parse:' + name, '%r parsed to text %r sequences %r' % (got, p.unformatted_str, seqs))
    elif seqs[0][1][0][0] != ';'.join(str(a) for a in args):
        o.fail('helper-args:' + name, '%r parsed body %r' % (got, seqs[0][1][0][0]))
    o.nontrivial = any(a != 1 for a in args)
    o.label(name)
    return o


def strat_helper():
    ints = st.one_of(st.sampled_from([0, 1, 2, 3, 9, 10, 255, 10 ** 6, 10 ** 70]), st.integers(0, 10 ** 9))
    return st.fixed_dictionaries({'fn': st.sampled_from(sorted(HELPERS)), 'args': st.lists(ints, min_size=2, max_size=2),
                                  'default': st.booleans()})


def self_test():
    r = READINGS[0]
    assert tokenize('ab\x1b[1mcd', True, None, r) == ('abcd', {2: [('1', 'm')]})
    assert tokenize('\x1b[1m\x1b[2Kx', True, 'm', r) == ('\x1b[2Kx', {0: [('1', 'm')]})
    assert tokenize('x\x1b[1', True, 'm', r) == ('x', {1: [('1', '')]})
    assert tokenize('x\x1b[1', False, None, r) == ('x\x1b[1', {})
    assert reinsert('abcd', {2: [('1', 'm'), ('', 'm')]}) == 'ab\x1b[1m\x1b[mcd'
    assert set(HELPERS) == {n for n in dir(ansi_string) if re.match(r'(cursor|erase|scroll)_.*_str$', n)}, \
        'helper table out of date'


def strat_long():
    """sequences with long parameter strings (many codes, large numbers) and helpers' output with huge arguments"""
    num = st.one_of(st.integers(0, 255).map(str), st.sampled_from(['38;2;255;255;255', '48;2;100;200;250', '58;5;200', '1', '0', '10000000000000000000000']))
    body = st.lists(num, min_size=8, max_size=40).map(';'.join)
    final = st.sampled_from(list('mmmHJKA~'))
    tok = st.one_of(st.text(alphabet='ab m[', max_size=3), st.tuples(body, final).map(lambda t: '\x1b[' + t[0] + t[1]))
    return st.lists(tok, min_size=1, max_size=4).map(lambda l: {'s': ''.join(l)})


SUBS = [
    Sub('all_final_bytes', eval_parse, enumerate=enum_finals, exhaustive_note='every final byte 0x40-0x7E and both neighbours in four frames'),
    Sub('parse_long_params', eval_parse, strategy=strat_long, quick=300, thorough=4000,
        rule='control sequences whose parameter string is 20-400 characters long'),
    Sub('parse_core_exhaustive', eval_parse, enumerate=enum_core,
        rule='all strings over {ESC,[,1,;,m,A} of length <=5 (quick) / <=7 (thorough) x 8 flag combinations',
        exhaustive_note='every string over the 6-symbol core alphabet up to the length bound'),
    Sub('parse_free', eval_parse, strategy=strat_free, quick=1500, thorough=30000),
    Sub('parse_tokens', eval_parse, strategy=strat_tokens, quick=1500, thorough=30000),
    Sub('helpers', eval_helper, strategy=strat_helper, quick=400, thorough=5000, shards_quick=2, shards_thorough=4),
]

# thorough tier: atheris / libFuzzer campaigns (fuzz/target.py) with this sub-check's evaluate() as the oracle
FUZZ = [dict(sub='parse_free', runs=150000, shards=4, seeds=[b'\x00\x04\x08\x03', b'\x03\x05\x04\x08\x0e\x00\t'])]
