"""C03 -- render / re-parse round trip and simplify() preserve appearance and are stable."""
from hypothesis import strategies as st
from vlib.core import Sub, Outcome
from vlib import gen, sgrterm
from vlib.interp import (Interp, BuilderInvalid, per_char_ids, per_char, change_points, describe, wellformed, styles, style, groups)
from ansi_string import AnsiString, AnsiStr

RULE = ('values = generated programs, ESC-free text. round trip: well-formed settings only (known, clear, reset, '
        'unknown codes, multi-group verbatim). simplify: additionally invalid verbatim settings (containing a final byte). '
        'Non-trivial = some character carries >=2 settings touching a common effect group, or a multi-parameter colour '
        'next to another setting; distinct by (text, per-character settings).')
ASSUMPTIONS = ['valid-but-incomplete verbatim groups (e.g. "38;5") are outside the asserted domain: their rendering fuses '
               'with the neighbouring setting and has no per-setting meaning',
               'effective style before simplify() = reduction of the valid settings only (invalid ones are what simplify removes)']

CFG_RT = gen.Cfg(esc=False, odd=0.25, invalid=False, incomplete=False, max_ops=5)
CFG_SIMP = gen.Cfg(esc=False, odd=0.3, invalid=True, incomplete=False, max_ops=5)
# base texts that carry non-SGR control sequences (cursor / erase helpers): kept verbatim by the parser, so the round trip is well defined
CFG_CSI = gen.Cfg(esc=False, odd=0.2, invalid=False, incomplete=False, max_ops=3, alphabet=['a', 'b', ' ', 'a', 'b', '\x1b[2K', '\x1b[20G', '\x1b[1;2H', 'm', '['], ansi_ctor=False, max_text=8)


def nontrivial(per):
    for p in per:
        if len(p) >= 2:
            gs = [groups(t) for t in p]
            for i in range(len(gs)):
                for j in range(i + 1, len(gs)):
                    if gs[i] & gs[j] or '*' in gs[i] or '*' in gs[j]:
                        return True
            if any(';' in t for t in p):
                return True
    return False


import re as _re
_SGR = _re.compile('\x1b\\[[\x20-\x3f]*m')
_CSI_NON_SGR = _re.compile('\x1b\\[[0-9;]*[A-LN-Za-ln-z]')


def strip_csi(t):
    return _CSI_NON_SGR.sub('', t)


def eval_roundtrip(case):
    o = Outcome()
    try:
        v = Interp().build_checked(case['p'])
    except BuilderInvalid:
        o.skipped = 'builder_invalid'
        return o
    t, per = v.base_str, per_char(v)
    if ('\x1b' in t and not case.get('csi')) or not wellformed(per) or '\x1b' in strip_csi(t):
        o.skipped = 'not-wellformed-or-esc'
        return o
    ids_ = per_char_ids(v)
    for m_ in _CSI_NON_SGR.finditer(t):
        # a change point (even between equal-valued settings) inside an embedded control sequence makes the renderer
        # put an SGR sequence inside that control sequence: outside the domain
        if any(ids_[k] != ids_[m_.start()] for k in range(m_.start(), m_.end())):
            o.skipped = 'style-change-inside-embedded-control-sequence'
            return o
    if case.get('csi'):
        r0 = v.to_str(None, False, False, False)
        removed = 0
        offs = []
        for m_ in _SGR.finditer(r0):
            offs.append(m_.start() - removed)
            removed += m_.end() - m_.start()
        for m_ in _CSI_NON_SGR.finditer(t):
            if any(m_.start() < x < m_.end() for x in offs):
                o.skipped = 'style-change-inside-embedded-control-sequence'
                return o
    sty = styles(per)
    r = str(v)
    for cls in (AnsiString, AnsiStr):
        w = cls(r)
        if w.base_str != t:
            o.fail('roundtrip-text', '%s -> %r -> %s' % (describe(v), r, describe(w)))
            continue
        sw = styles(per_char(w))
        if sw != sty:
            k = [i for i in range(len(t)) if sw[i] != sty[i]][0]
            o.fail('roundtrip-style', '%s -> %r -> %s: char %d style %r, was %r' % (describe(v), r, describe(w), k, sw[k], sty[k]))
    o.nontrivial = nontrivial(per)
    o.key = [t, per]
    o.label('cp:%d' % min(change_points(per), 4))
    return o


def valid_text(s):
    return not any(0x40 <= ord(c) <= 0x7e for c in s)


def eval_simplify(case):
    o = Outcome()
    try:
        v = Interp().build_checked(case['p'])
    except BuilderInvalid:
        o.skipped = 'builder_invalid'
        return o
    t, per = v.base_str, per_char(v)
    kept = [tuple(x for x in p if valid_text(x)) for p in per]
    if '\x1b' in t or not wellformed(kept):
        o.skipped = 'not-wellformed-or-esc'
        return o
    had_invalid = kept != [tuple(p) for p in per]
    sty = styles(kept)
    if isinstance(v, AnsiStr):
        c = v.simplify()
        if type(c) is not AnsiStr:
            o.fail('simplify-type', type(c).__name__)
        if per_char(v) != per or v.base_str != t:
            o.fail('ansistr-receiver-changed', describe(v))
        again = lambda x: x.simplify()
    else:
        c = v.copy()
        rv = c.simplify()
        again = lambda x: (x.simplify(), x)[1]
    if c.base_str != t:
        o.fail('simplify-text', '%s -> %s' % (describe(v), describe(c)))
        return o
    pc = per_char(c)
    sc = styles(pc)
    if sc != sty:
        k = [i for i in range(len(t)) if sc[i] != sty[i]][0]
        o.fail('simplify-style', '%s simplify -> %s: char %d style %r, was %r' % (describe(v), describe(c), k, sc[k], sty[k]))
    if not c.is_formatting_parsable():
        o.fail('simplify-not-parsable', '%s -> %s' % (describe(v), describe(c)))
    if not c.is_formatting_valid():
        o.fail('simplify-not-valid', '%s -> %s' % (describe(v), describe(c)))
    for i in range(len(c)):
        for x in c.ansi_settings_at(i):
            if not x.valid or not x.parsable:
                o.fail('simplify-leaves-bad-setting', '%s -> %s: %r' % (describe(v), describe(c), str(x)))
    r1 = str(c)
    c2 = again(c)
    if str(c2) != r1:
        o.fail('simplify-not-idempotent', '%s: first %r second %r' % (describe(v), r1, str(c2)))
    r2 = str(AnsiString(r1))
    if r2 != r1:
        o.fail('simplified-not-fixed-point', '%s: simplified renders %r, re-parsed renders %r' % (describe(v), r1, r2))
    o.nontrivial = nontrivial(per)
    o.key = [t, per]
    o.label('had-invalid' if had_invalid else 'all-valid', 'cls:' + type(v).__name__)
    return o


def enum_small(tier):
    for names, depth, text in gen.small_scopes(tier):
        for i, p in enumerate(gen.small_values(names, depth, text)):
            yield {'p': p}
            if i % 7 == 0:
                yield {'p': dict(p, cls='s')}


SUBS = [
    Sub('roundtrip', eval_roundtrip, strategy=lambda: st.fixed_dictionaries({'p': gen.progs(CFG_RT)}), quick=500, thorough=8000),
    Sub('roundtrip_csi_text', eval_roundtrip, strategy=lambda: st.fixed_dictionaries({'p': gen.progs(CFG_CSI), 'csi': st.just(True)}), quick=300, thorough=5000,
        rule='base texts containing non-SGR control sequences (erase / cursor), which parsing keeps verbatim'),
    Sub('small_exhaustive', eval_roundtrip, enumerate=enum_small,
        rule='every value reachable from a plain text by <= 2 apply/remove steps over {red, blue, bold} on 3 characters and by <= 3 steps over {red, blue} on 2 (thorough: 3) characters: render -> parse round trip',
        exhaustive_note='all values of the small scopes'),
    Sub('simplify_small_exhaustive', eval_simplify, enumerate=enum_small,
        rule='every value reachable from a plain text by <= 2 apply/remove steps over {red, blue, bold} on 3 characters and by <= 3 steps over {red, blue} on 2 (thorough: 3) characters: simplify()',
        exhaustive_note='all values of the small scopes'),
    Sub('simplify', eval_simplify, strategy=lambda: st.fixed_dictionaries({'p': gen.progs(CFG_SIMP)}), quick=500, thorough=8000),
]
