"""C15 -- valid / parsable flags are exact; valid formatting renders well-formed escapes."""
import itertools, re
from hypothesis import strategies as st
from vlib.core import Sub, Outcome, HarnessError, lib_frame
from vlib import gen, sgrterm
from vlib.interp import Interp, BuilderInvalid, per_char, describe, FLAGS8
from ansi_string import AnsiString, AnsiStr, AnsiFormat
from ansi_string.ansi_format import AnsiSetting

RULE = ('classifier: setting texts over {digits, ";", space, : < = > ?, final bytes}: exhaustive for length <= 5 over the 9-symbol core '
        '{0,1,2,3,5,8,;,space,m}; generated to length 20 from a near-miss grammar (known/unknown codes, 38/48/58;5;n, ...;2;r;g;b '
        'with a value missing / extra / 256 / leading zeros, reset); each text probed on fresh AnsiSetting objects in both query '
        'orders and twice. conjunction + rendering: generated program values with valid / invalid / unparsable settings under all 8 '
        'flags. Non-trivial = text with >=2 tokens or a final byte (classifier); value with >=1 unparsable-but-valid setting in '
        'use (rendering); distinct by text / (text, per-character settings).')
ASSUMPTIONS = ['parsable expectation for texts containing blanks is not asserted (whether " 1" is "one complete group" is left open); '
               'tokens int() accepts that are not plain ASCII digits are outside the alphabet and not generated',
               'known codes come from the reference terminal table (vlib/sgrterm.py), not from the library']

KNOWN_SINGLE = sorted(c for c in sgrterm.KNOWN_CODES if c not in (0, 38, 48, 58))


def exp_valid(t):
    return not any(0x40 <= ord(c) <= 0x7e for c in t)


def exp_parsable(t):
    """None = not asserted."""
    if not exp_valid(t):
        return False
    if ' ' in t or any(not (0x20 <= ord(c) <= 0x7e) for c in t):
        # blanks, and characters outside the byte alphabet the statement names (e.g. non-ASCII digits that int() accepts):
        # queried (must not raise) but not asserted
        return None
    toks = t.split(';')
    if not all(re.fullmatch('[0-9]+', x) for x in toks):
        return False
    ints = [int(x) for x in toks]
    if any(i > 255 for i in ints):
        return False
    if len(ints) == 1:
        return ints[0] in KNOWN_SINGLE
    if ints[0] in (38, 48, 58):
        if ints[1] == 5:
            return len(ints) == 3
        if ints[1] == 2:
            return len(ints) == 5
    return False


def eval_text(case):
    o = Outcome()
    t = case['t']
    if t == '':
        try:
            AnsiSetting('')
            o.fail('empty-accepted', '')
        except ValueError:
            pass
        return o
    ev, ep = exp_valid(t), exp_parsable(t)
    a = AnsiSetting(t)
    v1 = a.valid
    p1 = a.parsable
    b = AnsiSetting(t)
    p2 = b.parsable
    v2 = b.valid
    c = AnsiSetting(a)
    obs = [('valid-first', v1), ('valid-after-parsable', v2), ('valid-again', a.valid), ('valid-copy', c.valid)]
    for nm, v in obs:
        if v is not ev:
            o.fail('valid-wrong', 'AnsiSetting(%r).valid (%s) = %r expected %r' % (t, nm, v, ev))
            break
    if ep is not None:
        for nm, p in (('after-valid', p1), ('parsable-first', p2), ('again', a.parsable), ('again2', b.parsable), ('copy', c.parsable)):
            if p is not ep:
                o.fail('parsable-wrong', 'AnsiSetting(%r).parsable (%s) = %r expected %r' % (t, nm, p, ep))
                break
    else:
        o.skipped = 'blank-in-text-parsable-not-asserted'
    if str(a) != t:
        o.fail('text-changed', repr(t))
    # built from list / tuple / int
    toks = t.split(';')
    if all(re.fullmatch('[0-9]+', x) for x in toks):
        ints = [int(x) for x in toks]
        canon = ';'.join(str(i) for i in ints)
        for form in (list(ints), tuple(ints)) + ((ints[0],) if len(ints) == 1 else ()):
            s = AnsiSetting(form)
            if str(s) != canon or s.valid is not True or s.parsable is not exp_parsable(canon):
                o.fail('from-ints-wrong', 'AnsiSetting(%r): text %r valid %r parsable %r' % (form, str(s), s.valid, s.parsable))
    o.nontrivial = (';' in t) or not ev
    o.label('valid' if ev else 'invalid', 'parsable:%s' % ep)
    return o


CORE = ['0', '1', '2', '3', '5', '8', ';', ' ', 'm']


def enum_core(tier):
    maxlen = 5 if tier == 'quick' else 6
    for L in range(1, maxlen + 1):
        for tup in itertools.product(CORE, repeat=L):
            yield {'t': ''.join(tup)}
    for n in range(0, 300):
        yield {'t': str(n)}
        yield {'t': '38;5;%d' % n}
        yield {'t': '48;2;1;%d;3' % n}


def strat_text():
    byte = st.one_of(st.sampled_from(['0', '1', '5', '9', '10', '99', '128', '200', '255', '256', '300', '007', '0255', '']), st.integers(0, 260).map(str))
    single = st.one_of(st.integers(0, 110).map(str), st.sampled_from(['0', '00', '1', '01', '22', '38', '48', '58', '56', '99', '108', '255', '256']))
    ext = st.tuples(st.sampled_from(['38', '48', '58', '38', '39', '028']), st.sampled_from(['5', '2', '2', '5', '1', '']),
                    st.lists(byte, max_size=5)).map(lambda x: ';'.join([x[0], x[1]] + x[2]))
    pieces = st.one_of(single, ext, ext, st.lists(single, min_size=2, max_size=3).map(';'.join))

    def mangle(args):
        s, pos, ch = args
        if ch is None:
            return s
        pos = pos % (len(s) + 1)
        return s[:pos] + ch + s[pos:]
    odd = st.one_of(st.none(), st.none(), st.sampled_from([' ', ':', '<', '=', '>', '?', 'm', '@', '~', '[', '_', 'A', 'z', ';', ';;', '\x7f', '\x3f', '\x40', '\x7e', '\u00b2', '\u2460', '\u0663', '3\u00b3']))
    return st.tuples(pieces, st.integers(0, 30), odd).map(mangle).map(lambda t: {'t': t})


CFG = gen.Cfg(esc=False, odd=0.3, invalid=True, incomplete=True, max_ops=4)
CFG_VALID = gen.Cfg(esc=False, odd=0.4, invalid=False, incomplete=True, max_ops=4)
SGR = re.compile('\x1b\\[([\x20-\x3f]*)m')


def flags_ok(o, v, where):
    per = per_char(v)
    used = []
    for p in per:
        for x in p:
            if x not in used:
                used.append(x)
    ev = all(exp_valid(x) for x in used)
    eps = [exp_parsable(x) for x in used]
    if v.is_formatting_valid() is not ev:
        o.fail('is_formatting_valid', '%s %s: is_formatting_valid() = %r, settings in use %r' % (where, describe(v), v.is_formatting_valid(), used))
    if None not in eps and v.is_formatting_parsable() is not all(eps):
        o.fail('is_formatting_parsable', '%s %s: is_formatting_parsable() = %r, settings in use %r' % (where, describe(v), v.is_formatting_parsable(), used))


def eval_value(case):
    o = Outcome()
    prog = case['p']
    ip = Interp()
    try:
        # the flags are queried (and the value rendered) after every step of the history, not only at its end
        v = ip.build({'cls': prog.get('cls'), 'ctor': prog['ctor'], 'ops': []})
        flags_ok(o, v, 'after constructor')
        for i, op in enumerate(prog.get('ops', [])):
            v = ip.step(v, op)
            str(v)
            flags_ok(o, v, 'after step %d (%s)' % (i, op.get('op')))
            if o.fails:
                return o
        per_char(v)
    except BuilderInvalid:
        o.skipped = 'builder_invalid'
        return o
    t, per = v.base_str, per_char(v)
    used = []
    for p in per:
        for x in p:
            if x not in used:
                used.append(x)
    ev = all(exp_valid(x) for x in used)
    eps = [exp_parsable(x) for x in used]
    what = describe(v)
    if v.is_formatting_valid() is not ev:
        o.fail('is_formatting_valid', '%s: is_formatting_valid() = %r, settings in use %r' % (what, v.is_formatting_valid(), used))
    if None not in eps:
        ep = all(eps)
        if v.is_formatting_parsable() is not ep:
            o.fail('is_formatting_parsable', '%s: is_formatting_parsable() = %r, settings in use %r' % (what, v.is_formatting_parsable(), used))
        if v.is_optimizable() is not ep:
            o.fail('is_optimizable', what)
    for i in range(len(t)):
        for s in v.ansi_settings_at(i):
            if s.valid is not exp_valid(str(s)) or (exp_parsable(str(s)) is not None and s.parsable is not exp_parsable(str(s))):
                o.fail('setting-flag', '%s: setting %r valid %r parsable %r' % (what, str(s), s.valid, s.parsable))
    unparsable_valid = [x for x in used if exp_valid(x) and exp_parsable(x) is False]
    if ev and '\x1b' not in t:
        optimisable = v.is_optimizable()
        for (opt, rs, re_) in FLAGS8:
            out = v.to_str(None, opt, rs, re_)
            if SGR.sub('', out) != t:
                o.fail('render-residue', '%s optimize=%s reset_start=%s reset_end=%s -> %r; stripped %r' % (what, opt, rs, re_, out, SGR.sub('', out)))
                continue
            if not opt or not optimisable:
                bodies = [';' + m.group(1) + ';' for m in SGR.finditer(out)]
                for x in used:
                    if not any((';' + x + ';') in b for b in bodies):
                        o.fail('render-setting-missing', '%s optimize=%s -> %r: setting %r does not appear intact' % (what, opt, out, x))
                        break
        o.label('rendered')
    else:
        o.label('not-valid-or-esc')
    o.nontrivial = bool(unparsable_valid) and ev
    o.key = [t, per]
    return o


def eval_guaranteed(case):
    o = Outcome()
    n = case['n']
    forms = [('int', n), ('str', str(n)), ('list', [n])]
    for k, f in forms:
        v = AnsiString('x', f)
        ok = v.is_formatting_valid() and v.is_formatting_parsable() and all(s.valid and s.parsable for s in v.ansi_settings_at(0))
        exp = n in KNOWN_SINGLE
        if exp and not ok:
            o.fail('known-code-not-parsable', 'code %d as %s' % (n, k))
        if not exp and v.is_formatting_parsable():
            o.fail('unknown-code-parsable', 'code %d as %s' % (n, k))
    for comp in ('fg_', 'bg_', 'ul_', 'dul_'):
        for f in (getattr(AnsiFormat, comp + 'color256')(n), getattr(AnsiFormat, comp + 'rgb')(n, 255 - n, 0), getattr(AnsiFormat, comp + 'rgb')(n * 65793 % 0x1000000),
                  '%srgb(%d, 0, %d)' % (comp, n, n), '%scolour256(0x%x)' % (comp, n)):
            v = AnsiStr('x', f)
            if not (v.is_formatting_valid() and v.is_formatting_parsable()):
                o.fail('helper-not-parsable', '%r' % (f,))
    o.nontrivial = True
    return o


def enum_guaranteed(tier):
    for n in range(256):
        yield {'n': n}


def self_test():
    assert exp_valid('1;31') and not exp_valid('1m') and not exp_valid('@') and not exp_valid('~') and exp_valid('\x7f') and exp_valid('?')
    assert exp_parsable('1') and exp_parsable('01') and not exp_parsable('0') and not exp_parsable('00') and not exp_parsable('38')
    assert exp_parsable('38;5;255') and not exp_parsable('38;5;256') and not exp_parsable('38;5') and not exp_parsable('38;5;1;2')
    assert exp_parsable('58;2;0;0;0') and not exp_parsable('58;2;0;0') and not exp_parsable('1;31') and not exp_parsable('56')
    assert not exp_parsable('1;') and not exp_parsable(';') and not exp_parsable('1:2') and exp_parsable(' 1') is None
    assert exp_parsable('107') and not exp_parsable('108') and exp_parsable('10') and exp_parsable('59') and not exp_parsable('57')


CFG_HIST = gen.Cfg(esc=False, odd=0.45, invalid=True, incomplete=True, max_ops=6, alphabet='aab', min_text=2, max_text=6, cls_s=0.1,
                   ops=['replace'] * 6 + ['iadd'] * 3 + ['apply'] * 3 + ['remove'] * 2 + ['clip', 'clear', 'simplify', 'fmtmatch', 'unfmtmatch', 'rjust', 'strip',
                                                                                         'assign', 'add', 'join', 'expandtabs', 'case'])


SUBS = [
    Sub('flag_history', eval_value, strategy=lambda: st.fixed_dictionaries({'p': gen.prog(CFG_HIST)}), quick=500, thorough=8000,
        rule='histories of (mostly in-place) mutators on two-letter texts with valid, invalid and unparsable settings in receiver and operands; flags queried after every step'),
    Sub('texts_exhaustive', eval_text, enumerate=enum_core,
        rule='all texts over {0,1,2,3,5,8,;,space,m} of length <=5 (quick) / <=6 (thorough) plus every code / colour value 0..299',
        exhaustive_note='every setting text over the 9-symbol core alphabet up to the length bound'),
    Sub('texts_generated', eval_text, strategy=strat_text, quick=1500, thorough=25000),
    Sub('values', eval_value, strategy=lambda: st.fixed_dictionaries({'p': st.one_of(gen.progs(CFG), gen.progs(CFG_VALID), gen.progs(CFG_VALID))}),
        quick=400, thorough=6000),
    Sub('guaranteed', eval_guaranteed, enumerate=enum_guaranteed, exhaustive_note='codes 0..255 as int/str/list; helper results for every 8-bit value'),
]

# thorough tier: atheris / libFuzzer campaigns (fuzz/target.py) with this sub-check's evaluate() as the oracle
FUZZ = [dict(sub='texts_generated', runs=300000, shards=4, seeds=[b'\x15\x08\x05\x08\x01', b'\x01\x0f'])]
