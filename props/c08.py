"""C08 -- value semantics: arguments and receivers not mutated, results not aliased."""
import copy
from hypothesis import strategies as st
from vlib.core import Sub, Outcome, HarnessError, lib_frame
from vlib import gen
from vlib.interp import (Interp, BuilderInvalid, Rejected, apply_op, per_char, renders, describe, mk_settings, is_selfcheck_error)
from vlib.machine import Machine, history, snap, snap_diff, is_inplace, MAX_LEN
from ansi_string import AnsiString, AnsiStr
from ansi_string.ansi_format import AnsiSetting

QUICK_SCALE = 1.0
RULE = ('histories: 2-3 initial values (AnsiString and AnsiStr) followed by 3-12 (quick) / up to 30 (thorough) public operations; '
        'every operation in in-place and non-in-place form; binary operations between any two live values including a value with '
        'itself; replace with a live value as replacement; results join the live set, so results and sources are mutated later. '
        'After every step: every live value other than the in-place receiver has an identical snapshot (text, per-character '
        'settings, 8 renderings, tail); settings-list arguments unchanged; in-place returns the receiver and equals the '
        'non-in-place twin run on a copy. Non-trivial = the history has a binary operation between two formatted values followed '
        'by >=1 in-place mutation of a live value; distinct by the operation log.')
ASSUMPTIONS = ['a step that raises is skipped here (error discipline and atomic failure are C09); a history is abandoned after an '
               'undocumented exception (reported by C09)']

CFG = gen.Cfg(esc=True, odd=0.12, invalid=True, incomplete=False, max_ops=2, max_text=8, rich=True, min_text=2)


def freeze_settings(x):
    if isinstance(x, (list, tuple)):
        return (type(x).__name__, tuple(freeze_settings(y) for y in x))
    if isinstance(x, AnsiSetting):
        return ('AnsiSetting', str(x), id(x))
    return (type(x).__name__, repr(x))


def eval_history(case):
    o = Outcome()
    try:
        m = Machine(case, max_len=700)
    except BuilderInvalid:
        o.skipped = 'builder_invalid'
        return o
    log = []
    binary_formatted = False
    nontrivial = False
    for sn, step in enumerate(case['steps']):
        regs = m.regs
        ri = step['r'] % len(regs)
        recv = regs[ri]
        op = dict(step)
        name = op['op']
        inplace = is_inplace(recv, op)
        before = [snap(v) for v in regs]
        witness = [AnsiString(v) if isinstance(v, AnsiString) else None for v in regs]
        S = None
        if 's' in op and op['s'] is not None:
            S = mk_settings(op['s'])
            op['_S'] = S
            S_before = freeze_settings(S)
        what = 'step %d: %s on r%d=%s' % (sn, {k: v for k, v in step.items() if k not in ('r',)}, ri, describe(recv))
        # the non-in-place twin, on a copy taken before
        twin = None
        if inplace:
            c = recv.copy()
            op2 = dict(op)
            op2['ip'] = False
            if S is not None:
                op2['_S'] = mk_settings(op['s'])
            try:
                twin = apply_op(c, op2, lambda x: (c if x['k'] == 'self' or (x['k'] == 'reg' and x['i'] % len(regs) == ri) else m.resolve(x, c)))
                twin = snap(twin)[1:]
            except Exception as e:
                if not isinstance(e, Rejected) and lib_frame(e)[0] != 'lib':
                    raise
                twin = ('raised', type(e).__name__)
            # the twin run must not have touched anything either
            after_twin = [snap(v) for v in regs]
            if after_twin != before:
                j = [i for i in range(len(regs)) if after_twin[i] != before[i]][0]
                o.fail('mutated-by-noninplace:' + name, '%s (non-in-place form on a copy): r%d changed (%s): now %s' % (
                    what, j, snap_diff(before[j], after_twin[j]), describe(regs[j])))
                break
        try:
            res = apply_op(recv, op, lambda x: m.resolve(x, recv))
        except Exception as e:
            if isinstance(e, Rejected):
                continue
            if lib_frame(e)[0] != 'lib':
                raise
            if isinstance(e, (ValueError, TypeError)) and not is_selfcheck_error(e) or (isinstance(e, IndexError) and name == 'index'):
                log.append(name + '!')
                after = [snap(v) for v in regs]
                continue
            o.label('aborted-undocumented-exception')
            break
        log.append(name + ('*' if inplace else ''))
        after = [snap(v) for v in regs]
        for j in range(len(regs)):
            if j == ri and inplace:
                continue
            if after[j] != before[j]:
                role = 'receiver' if j == ri else ('argument' if j in m.operand_regs(op, ri) else 'unrelated value')
                o.fail('mutated-%s:%s' % (role, name), '%s: r%d (%s) changed (%s): was %r %r, now %s' % (
                    what, j, role, snap_diff(before[j], after[j]), before[j][1], before[j][2], describe(regs[j])))
                break
            if witness[j] is not None and not (regs[j] == witness[j]):
                o.fail('eq-changed:' + name, '%s: r%d no longer == to a copy taken before the step' % (what, j))
                break
        if o.fails:
            break
        if S is not None and freeze_settings(S) != S_before:
            o.fail('settings-list-modified:' + name, '%s: settings argument now %r' % (what, S))
            break
        if inplace:
            if res is not recv:
                o.fail('inplace-not-receiver:' + name, what)
                break
            if twin is not None and twin != after[ri][1:]:
                o.fail('inplace-differs-from-copy:' + name, '%s: in place gives %s; non-in-place on a copy gave %r %r' % (
                    what, describe(recv), twin[0], twin[1] if len(twin) > 1 else ''))
                break
            if binary_formatted:
                nontrivial = True
        else:
            if isinstance(res, (AnsiString, AnsiStr)):
                if res is recv and name not in ('assign',) and isinstance(recv, AnsiString):
                    o.fail('result-is-receiver:' + name, what)
                    break
                for j, v in enumerate(regs):
                    if res is v and isinstance(v, AnsiString):
                        o.fail('result-aliases-live-value:' + name, '%s: result is r%d itself' % (what, j))
                if name in ('copy', 'conv') and isinstance(recv, AnsiString) and isinstance(res, AnsiString):
                    if not (res == recv) or str(res) != str(recv) or renders(res) != renders(recv):
                        o.fail('copy-not-equal', '%s: copy %s' % (what, describe(res)))
                        break
                if name == 'conv':
                    if res.base_str != recv.base_str or per_char(res) != per_char(recv) or renders(res) != renders(recv):
                        o.fail('conversion-differs', '%s -> %s' % (what, describe(res)))
                        break
                m.store(res, sn)
        if name in ('add', 'iadd', 'join', 'replace'):
            ops_ = [regs[j] for j in m.operand_regs(op, ri)] + ([recv] if any(x.get('k') == 'self' for x in [op.get('x', {}), op.get('new', {})] + op.get('xs', [])) else [])
            if any(per_char(recv)) and any(any(per_char(x)) for x in ops_):
                binary_formatted = True
    o.nontrivial = nontrivial
    o.key = [case['init'], case['steps']]
    o.label('steps:%d' % min(len(log), 12) if len(log) < 12 else 'steps:12+')
    for l in set(log):
        o.label('op:' + l)
    return o


CFG_TWIN = gen.Cfg(esc=True, odd=0.1, invalid=True, incomplete=False, max_ops=2, alphabet='aab  \t-', min_text=2, max_text=9, rich=True,
                    cls_s=0.0, ansi_ctor=False)
TWIN_NAMES = ['clip', 'ljust', 'rjust', 'center', 'zfill', 'replace', 'replace', 'strip', 'strip', 'lstrip', 'rstrip', 'rstrip', 'rmprefix',
              'rmsuffix', 'rmsuffix', 'case', 'expandtabs', 'expandtabs']


def eval_inplace_twin(case):
    """in-place variants return the receiver itself and equal the non-in-place result (also ==, and what a later
    concatenation shows), for one operation on a value with position-dependent formatting"""
    o = Outcome()
    try:
        v1 = Interp().build_checked(case['p'])
        v2 = Interp().build_checked(case['p'])
    except BuilderInvalid:
        o.skipped = 'builder_invalid'
        return o
    if not isinstance(v1, AnsiString):
        o.skipped = 'not-mutable'
        return o
    op = dict(case['op'])
    before = snap(v2)
    outs = []
    operands = []

    def mk_operand(x, v):
        if x['k'] == 'self':
            return v
        if x['k'] == 'str':
            return x['t']
        ob = Interp().build(x['p'])
        operands.append(ob)
        return ob
    for v, ip in ((v1, True), (v2, False)):
        op['ip'] = ip
        try:
            outs.append(('ok', apply_op(v, op, lambda x, v=v: mk_operand(x, v))))
        except Exception as e:
            if isinstance(e, Rejected):
                o.skipped = 'rejected'
                return o
            if lib_frame(e)[0] != 'lib':
                raise
            outs.append(('exc', type(e).__name__))
    what = '%s on %s' % ({k: x for k, x in case['op'].items() if k != 'ip'}, before[1:3])
    if outs[0][0] != outs[1][0]:
        o.fail('twin-outcome-differs:' + op['op'], '%s: in place %r, copy %r' % (what, outs[0], outs[1]))
        return o
    if outs[0][0] == 'exc':
        return o
    r1, r2 = outs[0][1], outs[1][1]
    if r1 is not v1:
        o.fail('inplace-not-receiver:' + op['op'], what)
    if r2 is v2:
        o.fail('result-is-receiver:' + op['op'], what)
    if snap(v2) != before:
        o.fail('mutated-receiver:' + op['op'], '%s: receiver of the non-in-place call changed' % what)
    s1, s2 = snap(r1), snap(r2)
    if s1 != s2:
        o.fail('inplace-differs-from-copy:' + op['op'], '%s: in place %s (tail %r), copy %s (tail %r)' % (what, describe(r1), s1[4], describe(r2), s2[4]))
    elif not (r1 == r2):
        o.fail('inplace-not-eq-copy:' + op['op'], '%s: in-place result != non-in-place result although they look the same: %s' % (what, describe(r1)))
    # a result is never an argument object, and changing the result afterwards never changes an argument
    for ob in operands:
        if isinstance(ob, AnsiString):
            ob_before = snap(ob)
            for nm, r in (('in-place', r1), ('copy', r2)):
                if r is ob:
                    o.fail('result-is-argument:' + op['op'], '%s: the %s result is the argument object itself' % (what, nm))
                    continue
                r.apply_formatting('italic')
                r.apply_formatting('bg_blue', 0, 1, topmost=False)
                r += 'q'
                if snap(ob) != ob_before:
                    o.fail('result-aliases-argument:' + op['op'], '%s: changing the %s result changed the argument: now %s' % (what, nm, describe(ob)))
    o.nontrivial = s2[1:3] != before[1:3]
    o.key = [before[1], before[2], case['op']]
    o.label(op['op'])
    return o


def strat_twin():
    return st.fixed_dictionaries({'p': gen.prog(CFG_TWIN), 'op': gen.op(CFG_TWIN, 1, names=TWIN_NAMES)})


def strat(maxs):
    return lambda: history(CFG, 3, maxs, huge=True)


SUBS = [
    Sub('inplace_twin', eval_inplace_twin, strategy=strat_twin, quick=600, thorough=10000,
        rule='one in-place-capable operation on a value with position-dependent formatting over a whitespace-rich alphabet: in-place vs copy'),
    Sub('history', eval_history, strategy=strat(12), quick=400, thorough=3000),
    Sub('history_long', eval_history, strategy=strat(30), quick=60, thorough=600),
]
