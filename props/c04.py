"""C04 -- slicing returns exactly the selected characters and styles, closed at the end."""
from hypothesis import strategies as st
from vlib.core import Sub, Outcome
from vlib import gen
from vlib.interp import (Interp, BuilderInvalid, resolve_idx, per_char, same_settings, tail_settings, change_points, describe)
from ansi_string import AnsiString, AnsiStr

RULE = ('values = generated programs (constructor + up to 5 public operations, nested operands, both classes, any '
        'settings incl. reset/unknown/multi-group/invalid/incomplete verbatim ones, texts that may contain ESC); x '
        'slice bounds / integer indices in {None} U [-14,14] U {+-100, +-10^6}; sub-check allpairs enumerates every '
        '(start, stop) in {None} U [-len-2, len+2] for each generated value. Non-trivial = a bound strictly inside '
        'the text on or next to a style change point; distinct by (text, per-character settings, bounds).')
ASSUMPTIONS = ['"same settings with the same precedence among conflicting settings" = equal multisets of setting '
               'texts and, per effect group, equal ordered subsequence of the settings touching it (reset touches all)']

CFG = gen.Cfg(esc=True, odd=0.15, invalid=True, incomplete=True, max_ops=5)


def build(case, o):
    ip = Interp()
    try:
        v = ip.build_checked(case['p'])
    except BuilderInvalid as e:
        o.skipped = 'builder_invalid'
        o.label('builder_invalid')
        return None
    return v


def check_slice(o, v, t, per, a, b, tag='slice'):
    sl = v[a:b]
    s0, s1, _ = slice(a, b).indices(len(t))
    exp_t = t[a:b]
    if type(sl) is not type(v):
        o.fail(tag + '-type', '%s[%r:%r] is %s' % (describe(v), a, b, type(sl).__name__))
    if sl.base_str != exp_t:
        o.fail(tag + '-text', '%s[%r:%r].base_str == %r, expected %r' % (describe(v), a, b, sl.base_str, exp_t))
        return sl
    ps = per_char(sl)
    for k in range(len(exp_t)):
        if not same_settings(ps[k], per[s0 + k]):
            o.fail(tag + '-settings', '%s[%r:%r] char %d reports %r, source char %d reports %r' % (
                describe(v), a, b, k, ps[k], s0 + k, per[s0 + k]))
            break
    tl = tail_settings(sl)
    if tl != ():
        o.fail(tag + '-not-closed', '%s[%r:%r] + "Z": Z reports %r' % (describe(v), a, b, tl))
    return sl


def nontrivial_bounds(per, n, a, b):
    s0, s1, _ = slice(a, b).indices(n)
    cps = [i for i in range(1, n) if per[i] != per[i - 1]]
    for x in (s0, s1):
        if 0 < x < n and any(abs(x - c) <= 1 for c in cps):
            return True
    return False


def eval_slice(case):
    o = Outcome()
    v = build(case, o)
    if v is None:
        return o
    t = v.base_str
    per = per_char(v)
    a, b, n = resolve_idx(case['a'], v), resolve_idx(case['b'], v), resolve_idx(case['n'], v)
    if n is None:
        n = 0
    sl = check_slice(o, v, t, per, a, b)
    # appended formatted text keeps only its own style
    r = sl + AnsiString('Z', 'italic')
    last = tuple(str(x) for x in r.ansi_settings_at(len(r) - 1))
    if last != ('3',):
        o.fail('append-own-style', '(%s[%r:%r] + italic Z): Z reports %r' % (describe(v), a, b, last))
    # clip
    c = v.clip(a, b)
    if not (c == sl) or per_char(c) != per_char(sl) or c.base_str != sl.base_str or type(c) is not type(v):
        o.fail('clip-differs', '%s.clip(%r,%r) = %s but slice = %s' % (describe(v), a, b, describe(c), describe(sl)))
    # step
    if case.get('step') in (1, None):
        s1 = v[a:b:case.get('step')]
        if per_char(s1) != per_char(sl) or s1.base_str != sl.base_str:
            o.fail('step1-differs', describe(v))
    else:
        try:
            v[a:b:case['step']]
            o.fail('step-accepted', '%s[%r:%r:%r] did not raise' % (describe(v), a, b, case['step']))
        except ValueError:
            pass
    # integer index
    L = len(t)
    if -L <= n < L:
        r = v[n]
        if type(r) is not type(v):
            o.fail('index-type', type(r).__name__)
        pn = per_char(r)
        if r.base_str != t[n] or len(pn) != 1 or not same_settings(pn[0], per[n % L]):
            o.fail('index-settings', '%s[%d] = %s; char %d of source reports %r' % (describe(v), n, describe(r), n % L, per[n % L]))
        elif tail_settings(r) != ():
            o.fail('index-not-closed', '%s[%d] + "Z": Z reports %r' % (describe(v), n, tail_settings(r)))
        o.label('index-valid-neg' if n < 0 else 'index-valid')
    else:
        try:
            r = v[n]
            o.fail('index-no-IndexError', '%s[%d] returned %s' % (describe(v), n, describe(r)))
        except IndexError:
            pass
        o.label('index-out-of-range')
    o.nontrivial = nontrivial_bounds(per, L, a, b)
    o.key = [t, per, a, b, n]
    cp = change_points(per)
    o.label('cp:%d' % min(cp, 4), 'cls:' + type(v).__name__)
    if any(len(set(p)) < len(p) for p in per):
        o.label('dup-equal-settings')
    if o.nontrivial:
        o.label('nontrivial')
    return o


def eval_iter(case):
    o = Outcome()
    v = build(case, o)
    if v is None:
        return o
    t = v.base_str
    per = per_char(v)
    items = list(v)
    if len(items) != len(t):
        o.fail('iter-length', '%s yields %d items' % (describe(v), len(items)))
        return o
    for i, it in enumerate(items):
        w = v[i]
        if type(it) is not type(v) or it.base_str != t[i] or per_char(it) != per_char(w) or not same_settings(per_char(it)[0], per[i]):
            o.fail('iter-item', '%s item %d is %s, s[%d] is %s' % (describe(v), i, describe(it), i, describe(w)))
            break
        if tail_settings(it) != ():
            o.fail('iter-item-not-closed', '%s item %d' % (describe(v), i))
            break
    # iterations are independent of each other: a second one started while the first is still alive
    if len(t) >= 2:
        it1 = iter(v)
        first = next(it1)
        second_run = [x.base_str for x in v]
        rest = [x.base_str for x in it1]
        pairs = [(a_.base_str, b_.base_str) for a_, b_ in zip(v, v)]
        if first.base_str != t[0] or second_run != list(t) or rest != list(t[1:]) or pairs != [(c, c) for c in t]:
            o.fail('iter-not-independent', '%s: interleaved iterations gave %r / %r / %r' % (describe(v), second_run, rest, pairs[:4]))
    o.nontrivial = change_points(per) >= 1
    o.key = [t, per]
    return o


def eval_allpairs(case):
    o = Outcome()
    v = build(case, o)
    if v is None:
        return o
    t = v.base_str
    per = per_char(v)
    L = len(t)
    if L <= 20:
        rng = [None] + list(range(-L - 2, L + 3))
    else:
        # long values: every bound on or next to a change point, the ends, and every 7th position (both signs)
        pts = set([0, 1, L - 1, L, L + 2])
        for i in range(1, L):
            if per[i] != per[i - 1]:
                pts.update([i - 1, i, i + 1])
        pts.update(range(0, L, 7))
        pts = sorted(x for x in pts if 0 <= x <= L + 2)
        if len(pts) > (40 if L <= 100 else 9):
            # keep the ends and an evenly spread sample (very long values: every slice costs ~10 ms to compare)
            k = 40 if L <= 100 else 9
            pts = sorted(set([pts[0], pts[-1]] + [pts[i * (len(pts) - 1) // (k - 1)] for i in range(k)]))
        rng = [None] + pts + [x - L for x in pts if x - L < 0] + [-L - 2]
        o.label('long-value')
    n = 0
    for a in rng:
        for b in rng:
            check_slice(o, v, t, per, a, b, tag='slice')
            n += 1
            if o.fails:
                o.fails = o.fails[:3]
                return o
    o.nontrivial = change_points(per) >= 2
    o.key = [t, per]
    o.label('pairs:%d' % n)
    return o


def strat_slice():
    return st.fixed_dictionaries({'p': gen.progs(CFG), 'a': gen.ridx(), 'b': gen.ridx(), 'n': gen.weighted((4, st.integers(-13, 13)), (1, gen.ridx())),
                                  'step': st.sampled_from([None, None, 1, 2, -1, 0, 3])})


def strat_value():
    return st.fixed_dictionaries({'p': gen.progs(CFG)})


def enum_small(tier):
    """every value of the small scopes; eval_allpairs then takes every (start, stop)"""
    for names, depth, text in gen.small_scopes(tier):
        for i, p in enumerate(gen.small_values(names, depth, text)):
            yield {'p': p}
            if i % 7 == 0:
                yield {'p': dict(p, cls='s')}


SUBS = [
    Sub('slice', eval_slice, strategy=strat_slice, quick=500, thorough=8000,
        rule='one (start, stop), one integer index, clip, step per generated value'),
    Sub('iterate', eval_iter, strategy=strat_value, quick=200, thorough=3000),
    Sub('small_exhaustive', eval_allpairs, enumerate=enum_small,
        rule='every value reachable from a plain text by <= 2 apply/remove steps over {red, blue, bold} on 3 characters and by <= 3 steps over {red, blue} on 2 characters (thorough: 3) - all ranges, topmost both ways, x every (start, stop) in {None} U [-len-2, len+2]',
        exhaustive_note='all values of the small scopes x all slice bounds'),
    Sub('allpairs', eval_allpairs, strategy=strat_value, quick=60, thorough=1500,
        rule='every (start, stop) in {None} U [-len-2, len+2] for each generated value (exhaustive in the bound dimension)'),
]
