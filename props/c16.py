"""C16 -- format_matching / unformat_matching equal apply / remove over re matches."""
import re, itertools
from hypothesis import strategies as st
from vlib.core import Sub, Outcome, HarnessError, lib_frame
from vlib import gen
from vlib.interp import (Interp, BuilderInvalid, per_char, same_settings, describe, mk_settings, change_points, tail_settings)
from ansi_string import AnsiString, AnsiStr

RULE = ('values with prior formatting x pattern: plain strings containing regex metacharacters (regex=False) or valid regexes from '
        'a small grammar (literals, classes, * + ? lazy, alternation, anchors, empty-matching patterns, adjacent matches) x match_case '
        'x count in {-1,0,1,2,7} x format in {none, one, several, None, None among others}. Non-trivial = >=2 matches, or the escaped '
        'and unescaped readings of the pattern differ, or count < number of matches; distinct by case. Texts contain line breaks '
        '(anchored and inline-flag patterns); sub-check matching_after_below_insert uses values with settings inserted below others '
        'and counts that run out before the matches do; the result must be == to the folded copy.')
ASSUMPTIONS = ['the reference folds the library\'s own apply_formatting / remove_formatting over re.finditer matches (their correctness is C06/C07)',
               'only syntactically valid regular expressions are generated']

CFG = gen.Cfg(esc=True, odd=0.1, invalid=True, incomplete=False, max_ops=3, alphabet='aAbB .-(*\n\n', min_text=2, max_text=12)

REGEXES = ['a', 'A', 'ab', 'a*', 'a+', 'a?', 'a*?', '[ab]', '[^a]', 'a|b', 'a|ab', '(a)(b)', '^a', 'a$', '^', '$', '', 'b*', '.', '..', r'\.', r'\(',
           '(?:ab)+', 'a{2}', r'\b', '[A-Z]', 'a.', '(a|b)*', r'\s', r'\S+', 'B', '[aA]+', '^.', r'\w+$', '^b', 'b$', '(?m)^a', r'\Aa', r'a\Z', '(?s)a.b', 'a.b', '(?i)b$']
PLAIN = ['a', 'A', 'ab', '.', '*', '(', 'a.', '.*', 'a*', ' ', '-', 'b(', 'aa', 'B', 'aB', '..']


def eval_case(case):
    o = Outcome()
    try:
        v = Interp().build_checked(case['p'])
    except BuilderInvalid:
        o.skipped = 'builder_invalid'
        return o
    t, per = v.base_str, per_char(v)
    pat, rx, mc, cnt, un = case['pat'], case['regex'], case['mc'], case['n'], case['un']
    if isinstance(pat, list):
        # ['sl', i, n]: a slice of the text (so it certainly occurs); for regex=True it is escaped
        i = pat[1] % max(1, len(t))
        pat = t[i:i + pat[2]] or 'a'
        if rx:
            pat = re.escape(pat)
    fm = case['s']
    fmt = []
    for x in fm:
        if x is None:
            fmt.append(None)
        else:
            fmt.extend(mk_settings([x]))
    fmt = tuple(fmt)
    rxs = pat if rx else re.escape(pat)
    try:
        matches = list(re.finditer(rxs, t, 0 if mc else re.IGNORECASE))
    except re.error:
        raise HarnessError('invalid regex generated: %r' % rxs)
    sel = matches if cnt < 0 else matches[:cnt]
    ref = AnsiString(v)
    if un:
        rf = None if (not fmt or None in fmt) else fmt
        for m in sel:
            ref.remove_formatting(rf, m.start(), m.end())
    else:
        if None in fmt:
            o.skipped = 'None-in-format_matching'
            return o
        for m in sel:
            ref.apply_formatting(fmt, m.start(), m.end())
    name = 'unformat_matching' if un else 'format_matching'
    what = '%s.%s(%r, *%r, regex=%r, match_case=%r, count=%r)' % (describe(v), name, pat, [str(x) if x is not None else None for x in fmt], rx, mc, cnt)
    if isinstance(v, AnsiString):
        w = v
        ret = getattr(w, name)(pat, *fmt, regex=rx, match_case=mc, count=cnt)
        if ret is not None:
            o.fail('return-value', what)
    else:
        w = getattr(v, name)(pat, *fmt, regex=rx, match_case=mc, count=cnt)
        if type(w) is not AnsiStr:
            o.fail('result-type', what)
            return o
        if per_char(v) != per or v.base_str != t:
            o.fail('ansistr-receiver-changed', what)
    if w.base_str != t:
        o.fail('text-changed', what)
        return o
    pw, pr = per_char(w), per_char(ref)
    if pw != pr:
        k = [i for i in range(len(t)) if pw[i] != pr[i]][0]
        o.fail('differs-from-fold', '%s: char %d reports %r; folding over the %d re matches %r gives %r' % (
            what, k, pw[k], len(sel), [(m.start(), m.end()) for m in sel], pr[k]))
    elif not (AnsiString(w) == ref):
        o.fail('differs-from-fold-eq', '%s: not == to the folded copy' % what)
    covered = set()
    for m in sel:
        covered |= set(range(m.start(), m.end()))
    for k in range(len(t)):
        if k not in covered and not same_settings(pw[k], per[k]):
            o.fail('outside-matches-changed', '%s: char %d reports %r, before %r' % (what, k, pw[k], per[k]))
            break
    if tail_settings(w) != ():
        o.fail('not-closed', what)
    try:
        other = list(re.finditer(pat if not rx else re.escape(pat), t, 0 if mc else re.IGNORECASE))
        differs = [(m.start(), m.end()) for m in other] != [(m.start(), m.end()) for m in matches]
    except re.error:
        differs = True   # the unescaped reading is not even a valid regex
    o.nontrivial = len([m for m in sel if m.end() > m.start()]) >= 2 or (differs and bool(matches)) or (0 <= cnt < len(matches))
    o.key = [t, per, pat, rx, mc, cnt, un, [str(x) for x in fmt]]
    o.label(name, 'regex' if rx else 'plain', 'matches:%d' % min(len(matches), 4), 'cnt:%d' % cnt)
    return o


def self_test():
    for r in REGEXES:
        re.compile(r)


_P = []


def _progs():
    if not _P:
        _P.append(gen.progs(CFG))
        _P.append(gen.specs(CFG, 1, 2))
    return _P


@st.composite
def strat(draw):
    p = draw(_progs()[0])
    rx = draw(st.booleans())
    pat = draw(st.sampled_from(REGEXES if rx else PLAIN))
    if draw(st.integers(0, 2)) == 0:
        pat = ['sl', draw(st.integers(0, 11)), draw(st.integers(1, 3))]
    un = draw(st.booleans())
    names = ['red', 'bold', 'blue', 'underline', 'bg_red', 'no_bold_faint', 'italic']
    one = st.sampled_from(names).map(lambda n: {'k': 'name', 'v': n})
    if un:
        s = draw(st.one_of(st.just([]), st.just([None]), st.lists(one, min_size=1, max_size=2), st.tuples(one, st.none()).map(list),
                           _progs()[1]))
    else:
        s = draw(st.one_of(st.just([]), st.lists(one, min_size=1, max_size=2), _progs()[1],
                           st.sampled_from([[{'k': 'int', 'v': 38}, {'k': 'int', 'v': 5}, {'k': 'int', 'v': 196}],
                                            [{'k': 'int', 'v': 4}, {'k': 'int', 'v': 58}, {'k': 'int', 'v': 5}, {'k': 'int', 'v': 9}],
                                            [{'k': 'name', 'v': 'bold'}, {'k': 'int', 'v': 48}, {'k': 'int', 'v': 2}, {'k': 'int', 'v': 1}, {'k': 'int', 'v': 2}, {'k': 'int', 'v': 3}]])))
    return {'p': p, 'pat': pat, 'regex': rx, 'mc': draw(st.booleans()), 'n': draw(st.sampled_from([-1, -1, -1, 0, 1, 2, 7, -5])), 's': s, 'un': un}


@st.composite
def strat_below(draw):
    """values in which a setting was inserted below others (topmost=False) - the removal of it by unformat_matching has
    restart pairs to clean up - with several matches and a count that may run out before they do"""
    names = ['red', 'blue', 'bold', 'underline', 'italic', 'bg_red']
    n = draw(st.integers(3, 8))
    t = ''.join(draw(st.lists(st.sampled_from(['a', 'a', 'b']), min_size=n, max_size=n)))
    rs = []
    for _ in range(draw(st.integers(1, 2))):
        a = draw(st.integers(0, n - 2))
        rs.append({'s': [{'k': 'name', 'v': draw(st.sampled_from(names))}], 'a': a, 'b': draw(st.one_of(st.none(), st.integers(a + 1, n))), 'top': True})
    low = draw(st.sampled_from(names))
    for _ in range(draw(st.integers(1, 2))):
        a = draw(st.integers(0, n - 1))
        rs.append({'s': [{'k': 'name', 'v': low}], 'a': a, 'b': draw(st.one_of(st.none(), st.integers(a + 1, n))), 'top': False})
    un = draw(st.sampled_from([True, True, True, False]))
    sel = draw(st.sampled_from([[{'k': 'name', 'v': low}], [{'k': 'name', 'v': low}], [], [{'k': 'name', 'v': draw(st.sampled_from(names))}]]))
    return {'p': {'cls': draw(st.sampled_from(['S', 'S', 's'])), 'ctor': {'k': 'ranges', 't': t, 'r': rs}, 'ops': []},
            'pat': draw(st.sampled_from(['a', 'b', 'ab', 'aa', '.', 'a+'])), 'regex': draw(st.booleans()), 'mc': True,
            'n': draw(st.sampled_from([1, 2, 1, -1, 0, 3])), 's': sel, 'un': un}


SUBS = [Sub('matching', eval_case, strategy=strat, quick=900, thorough=15000),
        Sub('matching_after_below_insert', eval_case, strategy=strat_below, quick=300, thorough=5000,
            rule='values with a setting inserted below others (topmost=False), several matches, counts that run out before the matches do')]
