"""C09 -- operations terminate, fail cleanly, and keep reachable values consistent."""
from hypothesis import strategies as st
from vlib.core import Sub, Outcome, HarnessError, lib_frame
from vlib import gen
from vlib.interp import (Interp, BuilderInvalid, Rejected, apply_op, per_char, renders, describe, mk_settings, is_selfcheck_error,
                         run_bounded, StepLimit, tail_settings)
from vlib.machine import Machine, history, snap, snap_diff, is_inplace, MAX_LEN, hist_operand, HIST_OPS
from ansi_string import AnsiString, AnsiStr, AnsiFormat
from ansi_string.ansi_format import AnsiSetting

QUICK_SCALE = 1.5
RULE = ('histories as in C08 but with the wide argument domain: empty strings/patterns/separators/fill, zero, negative and huge '
        'widths/counts (0, -1, +-10^6), indices far outside, invalid setting values (unknown names, negative ints, malformed rgb/colour '
        'strings, self-containing lists), slices with a step, wrong types where the signature documents one (operand of +/+=/join, '
        'index, setting, base string). After every call: termination within a deterministic line-event bound; success or a documented '
        'error type; after an error every live value is snapshot-identical; after success every live value answers all queries, '
        'renders, slices, concatenates and copies without raising and is closed at its end. '
        'Non-trivial = >=3 successful mutating steps and >=1 rejected call on a value with >=2 change points; distinct by history.')
ASSUMPTIONS = ['"documented types" = the type hints and docstrings; arguments of other types are only generated where the code documents '
               'a TypeError (operand of +, index, setting, constructor argument)',
               'only syntactically valid regular expressions are generated (re.error for an invalid pattern is outside the claim)',
               'termination = the call finishes within 3*10^6 + 2*10^4*(len+args) + 100*(len+1)*min((len+1)*(len(operand)+1), 1600) line events inside the library (deterministic, no wall clock; >= 4x the measured cost of the most expensive legitimate call, replace with every position matching)',
               'the error str raises for the same call is computed on the base text for the str-like methods']

CFG = gen.Cfg(esc=True, odd=0.15, invalid=True, incomplete=True, max_ops=2, max_text=8, rich=True, min_text=2)

BAD_SETTINGS = ['nope', 'bold1', -1, [1, -5], '-3', 'rgb(1,2)', 'rgb()', 'color256(x)', 'rgb(1,2,3', 1.5, [None], ['bold', 2.0], b'red',
                'SELF1', 'SELF2', '', ';;', [], [[]], 'bold;nope', {'a': 1}]


def mk_bad(x):
    if x == 'SELF1':
        a = ['red']
        a.append(a)
        return a
    if x == 'SELF2':
        a = ['bold']
        b = [a]
        a.append((b,))
        return a
    return x


def wide_ops():
    huge = st.sampled_from([0, -1, 1, 5, 50, -10 ** 6, 30000, 2 ** 70, 2 ** 64])
    wcount = st.sampled_from([-1, 0, 1, 2, 10 ** 6, -10 ** 6])
    fill = st.sampled_from(['', 'ab', ' ', '*', 'é', '\x1b', '\n'])
    sub = st.sampled_from(['', 'a', ' ', 'ab', '\n', '\t', 'aa', 'é', 'm', '['])
    ip = st.booleans()
    far = st.sampled_from([0, 1, -1, 5, -5, 100, -100, 10 ** 6, -10 ** 6, None])
    return st.one_of(
        st.fixed_dictionaries({'op': st.just('w_pad'), 'm': st.sampled_from(['ljust', 'rjust', 'center', 'zfill']), 'w': huge, 'f': fill,
                               'ext': st.booleans(), 'ip': ip}),
        st.fixed_dictionaries({'op': st.just('w_split'), 'm': st.sampled_from(['split', 'rsplit', 'partition', 'rpartition', 'splitlines']),
                               'sep': st.one_of(st.none(), sub), 'n': wcount, 'pick': st.integers(0, 4)}),
        st.fixed_dictionaries({'op': st.just('w_replace'), 'old': sub, 'new': st.one_of(hist_operand(), st.sampled_from([{'k': 'raw', 'v': 5}, {'k': 'raw', 'v': None}])),
                               'n': wcount, 'ip': ip}),
        st.fixed_dictionaries({'op': st.just('w_index'), 'i': st.sampled_from([0, -1, 3, -4, 50, -50, 10 ** 6, -10 ** 6, 'x', 1.5, None, (0, 2, 2), (None, None, -1),
                                                                                 (1, 5, 0), (0, 3, 1), (-100, 100, None), ('a', None, None)])}),
        st.fixed_dictionaries({'op': st.just('w_settings'), 'm': st.sampled_from(['apply', 'remove', 'find', 'ctor', 'fmtmatch', 'unfmtmatch', 'spec']),
                               'i': st.integers(0, len(BAD_SETTINGS) - 1), 'a': far, 'b': far, 'top': st.booleans(), 'mix': st.booleans()}),
        st.fixed_dictionaries({'op': st.just('w_add'), 'm': st.sampled_from(['add', 'iadd', 'join', 'join_first', 'contains', 'eq']),
                               'v': st.sampled_from(['int', 'none', 'float', 'bytes', 'list', 'tuple'])}),
        st.fixed_dictionaries({'op': st.just('w_assign'), 't': st.one_of(gen.texts(0, 12, esc=True), st.sampled_from([5, None]))}),
        st.fixed_dictionaries({'op': st.just('w_strip'), 'm': st.sampled_from(['strip', 'lstrip', 'rstrip', 'removeprefix', 'removesuffix']),
                               'c': st.one_of(sub, st.none()), 'ip': ip}),
        st.fixed_dictionaries({'op': st.just('w_expandtabs'), 'n': st.sampled_from([0, -1, 1, 8, 1000, 5000]), 'ip': ip}),
        st.fixed_dictionaries({'op': st.just('w_match'), 'm': st.sampled_from(['fmtmatch', 'unfmtmatch']),
                               'pat': st.sampled_from(['', 'a', '.', 'a*', '^', '$', '(a|b)*', '\\b', 'A', '[ab]', 'x?', '.*', '(?:)']),
                               'regex': st.booleans(), 'mc': st.booleans(), 'n': wcount}),
        st.fixed_dictionaries({'op': st.just('w_format'), 'spec': st.lists(st.sampled_from(list(':+-<>^ 0159x;*é') + ['red', 'bold', '10', '30000', ':', 'rgb(1,2,3)', '[1']), max_size=6).map(''.join)}),
        st.fixed_dictionaries({'op': st.just('w_query'), 'm': st.sampled_from(['count', 'find', 'rfind', 'index', 'rindex', 'endswith', 'settings_at',
                                                                                 'ansi_settings_at', 'find_settings', 'encode', 'to_str']),
                               'sub': sub, 'a': far, 'b': far}),
        st.fixed_dictionaries({'op': st.just('w_range'), 'm': st.sampled_from(['apply', 'remove', 'slice', 'clip', 'find']), 'a': far, 'b': far, 'top': st.booleans()}),
    )


def str_exception(t, fn):
    try:
        fn(t)
    except Exception as e:
        return type(e)
    return None


def cap_count(recv, new, cnt):
    """replace() rebuilds the string once per match (about 25 * len^2 * len(new) line events for an all-matching
    pattern): with a long receiver and a long replacement the unlimited / huge count is capped so that a legitimate
    call stays far below the termination bound"""
    try:
        m = len(new)
    except TypeError:
        return cnt
    if (len(recv) + 1) * (m + 1) > 1500 and (cnt < 0 or cnt > 3):
        return 3
    return cnt


def work_bound(recv, op, m_):
    n = len(recv)
    argsize = sum(len(str(v)) for v in op.values())
    big = 0
    for key in ('new', 'x'):
        if key in op and isinstance(op[key], dict):
            try:
                big = max(big, len(m_.resolve(op[key], recv)))
            except Exception:
                pass
    return 3 * 10 ** 6 + 2 * 10 ** 4 * (n + argsize) + 100 * (n + 1) * min((n + 1) * (big + 1), 1600)


def make_call(m, recv, op):
    """Returns (thunk, kind, allowed_extra_exception_types).  kind: 'inplace' | 'value' | 'scalar'."""
    name = op['op']
    t = recv.base_str
    mut = isinstance(recv, AnsiString)
    res = lambda x: m.resolve(x, recv)
    extra = set()
    if not name.startswith('w_'):
        if name == 'index':
            extra.add(IndexError)
        if name == 'replace':
            op = dict(op, n=cap_count(recv, res(op['new']), op.get('n', -1)))
        return (lambda: apply_op(recv, op, res)), ('inplace' if is_inplace(recv, op) else 'value'), extra
    if name == 'w_pad':
        meth = op['m']
        if isinstance(op['w'], int) and 10 ** 6 < op['w'] < 2 ** 63:
            # a width in this range would really be allocated (gigabytes); only widths up to 10^6 and widths that overflow
            # the index type (OverflowError, like str) are in the budget - the shrinker must not wander in between
            def thunk():
                raise Rejected('width out of budget')
            return thunk, 'scalar', extra
        ip = op['ip'] and mut
        e = str_exception(t, lambda s: getattr(s, meth)(op['w']) if meth == 'zfill' else getattr(s, meth)(op['w'], op['f']))
        if e:
            extra.add(e)
        if meth == 'zfill':
            return (lambda: recv.zfill(op['w'], inplace=True) if ip else recv.zfill(op['w'])), ('inplace' if ip else 'value'), extra
        if mut:
            return (lambda: getattr(recv, meth)(op['w'], op['f'], inplace=ip, extend_formatting=op['ext'])), ('inplace' if ip else 'value'), extra
        return (lambda: getattr(recv, meth)(op['w'], op['f'])), 'value', extra
    if name == 'w_split':
        meth = op['m']
        if meth in ('split', 'rsplit'):
            e = str_exception(t, lambda s: getattr(s, meth)(op['sep'], op['n']))
            call = lambda: getattr(recv, meth)(op['sep'], op['n'])
        elif meth == 'splitlines':
            e = None
            call = lambda: recv.splitlines(bool(op['n'] % 2))
        else:
            sep = op['sep'] if op['sep'] is not None else 'a'
            e = str_exception(t, lambda s: getattr(s, meth)(sep))
            call = lambda: list(getattr(recv, meth)(sep))
        if e:
            extra.add(e)

        def thunk():
            r = call()
            if not r:
                raise Rejected('no pieces')
            return r[op['pick'] % len(r)]
        return thunk, 'value', extra
    if name == 'w_replace':
        ip = op['ip'] and mut
        new = res(op['new'])
        cnt = cap_count(recv, new, op['n'])
        if mut:
            return (lambda: recv.replace(op['old'], new, cnt, inplace=ip)), ('inplace' if ip else 'value'), extra
        return (lambda: recv.replace(op['old'], new, cnt)), 'value', extra
    if name == 'w_index':
        i = op['i']
        if isinstance(i, (list, tuple)):
            i = slice(*i)
        else:
            extra.add(IndexError)
        return (lambda: recv[i]), 'value', extra
    if name == 'w_settings':
        bad = mk_bad(BAD_SETTINGS[op['i']])
        if op['mix']:
            bad = ['red', bad]
        meth = op['m']
        if meth == 'apply':
            return (lambda: recv.apply_formatting(bad, op['a'] or 0, op['b'], op['top'])), ('inplace' if mut else 'value'), extra
        if meth == 'remove':
            return (lambda: recv.remove_formatting(bad, op['a'] or 0, op['b'])), ('inplace' if mut else 'value'), extra
        if meth == 'find':
            return (lambda: recv.find_settings(bad, op['a'] or 0, op['b'])), 'scalar', extra
        if meth == 'ctor':
            return (lambda: type(recv)(recv, bad)), 'value', extra
        if meth == 'spec':
            if not isinstance(BAD_SETTINGS[op['i']], str) or BAD_SETTINGS[op['i']].startswith('SELF'):
                return (lambda: recv.to_str(':nope')), 'scalar', extra
            return (lambda: format(recv, '>5:' + BAD_SETTINGS[op['i']])), 'scalar', extra
        f = recv.format_matching if meth == 'fmtmatch' else recv.unformat_matching
        if op['mix']:
            # several format arguments, a valid one first (bad is ['red', <invalid>])
            return (lambda: f('a', *bad)), ('inplace' if mut else 'value'), extra
        return (lambda: f('a', bad)), ('inplace' if mut else 'value'), extra
    if name == 'w_add':
        v = {'int': 5, 'none': None, 'float': 1.5, 'bytes': b'x', 'list': ['a'], 'tuple': ('a',)}[op['v']]
        meth = op['m']
        if meth == 'add':
            return (lambda: recv + v), 'value', extra
        if meth == 'iadd':
            def thunk():
                x = recv
                x += v
                return x
            return thunk, ('inplace' if mut else 'value'), extra
        if meth == 'join':
            return (lambda: type(recv).join(recv, 'a', v)), 'value', extra
        if meth == 'join_first':
            return (lambda: type(recv).join(v, recv)), 'value', extra
        if meth == 'contains':
            return (lambda: v in recv), 'scalar', extra
        return (lambda: recv == v), 'scalar', extra
    if name == 'w_assign':
        if not mut:
            return (lambda: type(recv)(op['t'])), 'value', extra

        def thunk():
            recv.assign_str(op['t'])
            return recv
        return thunk, 'inplace', extra
    if name == 'w_strip':
        meth = op['m']
        ip = op['ip'] and mut
        c = op['c']
        if meth in ('removeprefix', 'removesuffix') and c is None:
            c = ''
        if mut:
            return (lambda: getattr(recv, meth)(c, inplace=ip)), ('inplace' if ip else 'value'), extra
        return (lambda: getattr(recv, meth)(c)), 'value', extra
    if name == 'w_expandtabs':
        ip = op['ip'] and mut
        n = op['n']
        if t.count('\t') * max(n, 0) > 3 * 10 ** 6:
            n = 8
        if mut:
            return (lambda: recv.expandtabs(n, inplace=ip)), ('inplace' if ip else 'value'), extra
        return (lambda: recv.expandtabs(n)), 'value', extra
    if name == 'w_match':
        f = recv.format_matching if op['m'] == 'fmtmatch' else recv.unformat_matching
        args = ('red', 'bold') if op['m'] == 'fmtmatch' else ()
        return (lambda: f(op['pat'], *args, regex=op['regex'], match_case=op['mc'], count=op['n'])), ('inplace' if mut else 'value'), extra
    if name == 'w_format':
        import re as _re
        if _re.search('[0-9]{6,}', op['spec']):
            # astronomically wide fields exhaust memory in str.format itself; widths are bounded at 10^5 here
            def thunk():
                raise Rejected('width out of budget')
            return thunk, 'scalar', extra
        return (lambda: format(recv, op['spec'])), 'scalar', extra
    if name == 'w_query':
        meth = op['m']
        if meth in ('count', 'find', 'rfind', 'index', 'rindex', 'endswith'):
            e = str_exception(t, lambda s: getattr(s, meth)(op['sub'], op['a'], op['b']))
            if e:
                extra.add(e)
            return (lambda: getattr(recv, meth)(op['sub'], op['a'], op['b'])), 'scalar', extra
        if meth in ('settings_at', 'ansi_settings_at'):
            return (lambda: getattr(recv, meth)(op['a'] or 0)), 'scalar', extra
        if meth == 'find_settings':
            return (lambda: recv.find_settings('red', op['a'] or 0, op['b'], bool(op['b']))), 'scalar', extra
        if meth == 'encode':
            e = str_exception(str(recv), lambda s: s.encode())
            if e:
                extra.add(e)
            return (lambda: recv.encode()), 'scalar', extra
        return (lambda: recv.to_str(None, bool(op['a']), bool(op['b']), True)), 'scalar', extra
    if name == 'w_range':
        meth = op['m']
        if meth == 'apply':
            return (lambda: recv.apply_formatting(['bold', 'bg_red'], op['a'] or 0, op['b'], op['top'])), ('inplace' if mut else 'value'), extra
        if meth == 'remove':
            return (lambda: recv.remove_formatting(None, op['a'] or 0, op['b'])), ('inplace' if mut else 'value'), extra
        if meth == 'slice':
            return (lambda: recv[op['a']:op['b']]), 'value', extra
        if meth == 'clip':
            return (lambda: recv.clip(op['a'], op['b'])), 'value', extra
        return (lambda: recv.find_settings('bold', op['a'] or 0, op['b'], op['top'])), 'scalar', extra
    raise HarnessError('bad op %r' % (op,))


def consistency(v):
    """every query / rendering / slice / concatenation / copy must complete; closed at the end.  Returns error text or None."""
    try:
        n = len(v)
        if n <= 400:
            per_char(v)
        else:
            v.ansi_settings_at(0), v.ansi_settings_at(n - 1), v.ansi_settings_at(n // 2)
        renders(v)
        v[1:-1]
        v[0:1]
        r = v + 'Z'
        tl = tuple(str(x) for x in r.ansi_settings_at(n))
        if tl != ():
            return 'a character appended to it reports %r (a marker is left past the end)' % (tl,)
        'x' in v
        c = AnsiString(v) if isinstance(v, AnsiStr) else v.copy()
        c == v
        str(v)
        v.find_settings('red')
        list(v[:3])
    except Exception as e:
        if lib_frame(e)[0] != 'lib':
            raise
        return '%s: %s' % (type(e).__name__, e)
    return None


def eval_history(case):
    o = Outcome()
    try:
        m = Machine(case)
    except BuilderInvalid as e:
        o.fail('initial-value-inconsistent', str(e))
        return o
    ok_mut = 0
    rejected_on_rich = 0
    log = []
    for sn, step in enumerate(case['steps']):
        regs = m.regs
        ri = step['r'] % len(regs)
        recv = regs[ri]
        op = dict(step)
        name = op['op']
        what = 'step %d: %s on r%d=%s' % (sn, {k: v for k, v in step.items() if k != 'r'}, ri, describe(recv))
        before = [snap(v) for v in regs]
        try:
            thunk, kind, extra = make_call(m, recv, op)
        except HarnessError:
            raise
        limit = work_bound(recv, op, m)
        try:
            res, events = run_bounded(thunk, limit)
        except StepLimit:
            o.fail('nonterminating:' + name + (':' + op.get('m', '') if 'm' in op else ''), '%s did not finish within %d line events' % (what, limit))
            break
        except Rejected:
            continue
        except Exception as e:
            if lib_frame(e)[0] != 'lib':
                raise
            allowed = (isinstance(e, (ValueError, TypeError)) and not is_selfcheck_error(e)) or any(type(e) is x for x in extra)
            if not allowed:
                o.fail('undocumented-error:%s:%s' % (name + (':' + str(op.get('m')) if 'm' in op else ''), type(e).__name__),
                       '%s raised %s: %s' % (what, type(e).__name__, e))
                break
            after = [snap(v) for v in regs]
            if after != before:
                j = [i for i in range(len(regs)) if after[i] != before[i]][0]
                o.fail('not-atomic:' + name + (':' + str(op.get('m')) if 'm' in op else ''),
                       '%s raised %s (%s) but r%d changed (%s): now %s' % (what, type(e).__name__, e, j, snap_diff(before[j], after[j]), describe(regs[j])))
                break
            log.append(name + '!')
            if len(before[ri][2]) and sum(1 for i in range(1, len(before[ri][2])) if before[ri][2][i] != before[ri][2][i - 1]) >= 2:
                rejected_on_rich += 1
            continue
        log.append(name)
        changed = []
        if kind == 'inplace':
            changed.append(recv)
            ok_mut += 1
            if len(recv) > MAX_LEN:
                err = consistency(recv)
                if err:
                    o.fail('inconsistent-after:' + name + (':' + str(op.get('m')) if 'm' in op else ''), '%s: the receiver then fails: %s' % (what, err))
                    break
                regs[ri] = AnsiString('ab', 'red') if isinstance(recv, AnsiString) else AnsiStr('ab', 'red')
                continue
        elif kind == 'value' and isinstance(res, (AnsiString, AnsiStr)):
            changed.append(res)
            if len(res) <= MAX_LEN:
                m.store(res, sn)
        for v in changed + (list(regs) if sn % 3 == 2 else []):
            err = consistency(v)
            if err:
                o.fail('inconsistent-after:' + name + (':' + str(op.get('m')) if 'm' in op else ''), '%s: a live value (%s) then fails: %s' % (
                    what, describe(v) if len(v) < 60 else 'len %d' % len(v), err))
                break
        if o.fails:
            break
    o.nontrivial = ok_mut >= 3 and rejected_on_rich >= 1
    o.key = [case['init'], case['steps']]
    for l in set(log):
        o.label('op:' + l)
    o.label('ok_mut:%d' % min(ok_mut, 5))
    return o


def eval_large(case):
    """calls whose size is in the thousands: they must succeed (no RecursionError / MemoryError / other undocumented error)
    and leave a consistent value"""
    o = Outcome()
    n = case['n']
    v = AnsiString(case['unit'] * n)
    v.apply_formatting('red', 1, n)
    v.apply_formatting('bold', n // 2, None)
    call = case['call']
    try:
        if call == 'replace':
            r = v.replace(case['unit'][-1], ';')
        elif call == 'replace_inplace':
            r = v.replace(case['unit'][-1], AnsiString('+', 'blue'), inplace=True)
        elif call == 'expandtabs':
            r = AnsiStr(v).expandtabs(2)
        elif call == 'split':
            r = v.split(case['unit'][-1])[-2]
        elif call == 'join':
            r = AnsiString.join(*[AnsiString('ab', 'red') for _ in range(n)])
        elif call == 'applies':
            r = AnsiString('x' * n)
            for i in range(0, n - 1):
                r.apply_formatting(['red', 'bold', 'blue'][i % 3], i, i + 2, topmost=bool(i % 2))
        elif call == 'fmtmatch':
            r = v.copy()
            r.format_matching(case['unit'][0], 'underline')
        elif call == 'simplify':
            r = v.copy()
            r.format_matching(case['unit'][0], 'underline', count=n // 3)
            r.simplify()
        elif call == 'iter':
            r = list(v)[-1]
        else:
            raise HarnessError(call)
    except HarnessError:
        raise
    except Exception as e:
        if lib_frame(e)[0] != 'lib':
            raise
        o.fail('large-call-raised:%s:%s' % (call, type(e).__name__), '%s on %d units of %r raised %s: %s' % (call, n, case['unit'], type(e).__name__, str(e)[:100]))
        return o
    err = consistency(r)
    if err:
        o.fail('large-call-inconsistent:' + call, '%s on %d units: result %s' % (call, n, err))
    o.nontrivial = True
    return o


def enum_large(tier):
    n = 1100 if tier == 'quick' else 2100
    for call, unit in (('replace', 'a,'), ('replace_inplace', 'a,'), ('expandtabs', 'a\t'), ('split', 'a,'), ('join', 'ab'), ('applies', 'x'),
                       ('fmtmatch', 'ab'), ('simplify', 'ab'), ('iter', 'ab')):
        yield {'call': call, 'unit': unit, 'n': n if call not in ('join', 'applies') else n // 3}


def strat(maxs):
    return lambda: history(CFG, 3, maxs, extra_ops=None, op_names=HIST_OPS).flatmap(lambda h: st.just(h)) if False else history_wide(maxs)


def history_wide(maxs):
    init = st.lists(gen.prog(CFG, depth=0, max_ops=2), min_size=2, max_size=3)
    base = gen.op(CFG, 0, names=HIST_OPS, opnd=hist_operand())
    ops = gen.weighted((3, base), (4, wide_ops()))
    step = st.tuples(st.integers(0, 9), ops).map(lambda x: dict(x[1], r=x[0]))
    return st.fixed_dictionaries({'init': init, 'steps': st.lists(step, min_size=3, max_size=maxs)})


SUBS = [
    Sub('large_calls', eval_large, enumerate=enum_large, exhaustive_note='fixed list of calls with sizes in the thousands'),
    Sub('history', eval_history, strategy=strat(12), quick=300, thorough=4000),
    Sub('history_long', eval_history, strategy=strat(30), quick=50, thorough=1200),
]
