"""C17 -- settings queries are mutually consistent."""
from hypothesis import strategies as st
from vlib.core import Sub, Outcome, HarnessError
from vlib import gen
from vlib.interp import (Interp, BuilderInvalid, resolve_idx, per_char, describe, mk_settings, texts_of_specs, change_points)
from ansi_string import AnsiString, AnsiStr
from ansi_string.ansi_format import AnsiSetting

QUICK_SCALE = 1.0
RULE = ('values = generated programs (both classes) x selection (a setting present somewhere in the value, two of them, an absent one, '
        'empty; in several spellings) x start/end in {None} U [-14,14] U {+-100,+-10^6} x reverse; sub-check allranges enumerates every '
        '(start, end) in {None} U [-len-2, len+2] for each generated value and selection. Non-trivial = the selection is present on a '
        'proper sub-range of the text, or reverse=True with >= 2 separate runs; distinct by (text, per-character settings, selection, range, reverse).')
ASSUMPTIONS = ['whether position `end` itself belongs to the searched range is not determined by the statement (the code treats end '
               'inclusively): when the only qualifying position, or the first lacking position, is exactly the range end, both the '
               'inclusive and the half-open answer are accepted; everything strictly inside is exact']

CFG = gen.Cfg(esc=True, odd=0.12, invalid=True, incomplete=False, max_ops=4)


def norm(x, default, n):
    if x is None:
        return default
    if x < 0:
        return max(0, n + x)
    return min(x, n)


def check_find(o, v, t, per, sel_texts, settings, a, b, rev, what):
    n = len(t)
    A, B = norm(a, 0, n), norm(b, n, n)
    res = v.find_settings(settings, a, b, rev)
    if not (isinstance(res, tuple) and len(res) == 2):
        o.fail('find-shape', '%s -> %r' % (what, res))
        return
    fs, fe = res
    if B < A:
        if res != (None, None):
            o.fail('find-reversed-range', '%s -> %r, expected (None, None)' % (what, res))
        return
    if not sel_texts:
        if res != (A, B):
            o.fail('find-empty-selection', '%s -> %r, expected the normalised range (%d, %d)' % (what, res, A, B))
        return

    def has(p):
        return 0 <= p < n and all(x in per[p] for x in sel_texts)
    inside = [p for p in range(A, B) if has(p)]          # half-open reading
    at_end = has(B)                                       # inclusive reading adds position B
    if not inside and not at_end:
        if res != (None, None):
            o.fail('find-absent', '%s -> %r but no position in range has %r' % (what, res, sel_texts))
        return
    if fs is None:
        if inside:
            o.fail('find-missed', '%s -> %r but positions %r have %r' % (what, res, inside[:5], sel_texts))
        elif fe is not None:
            o.fail('find-end-without-start', '%s -> %r' % (what, res))
        return
    if not (A <= fs <= B) or not has(fs):
        o.fail('find-start-wrong', '%s -> %r: position %r does not have %r (or lies outside [%d,%d])' % (what, res, fs, sel_texts, A, B))
        return
    if not rev:
        first = inside[0] if inside else B
        if fs != first:
            o.fail('find-start-not-first', '%s -> %r: first position with %r is %d' % (what, res, sel_texts, first))
            return
    # found_end
    run_end = fs
    while run_end < n and has(run_end):
        run_end += 1
    # run_end = first position after fs lacking a setting (== n if it runs to the end of the text)
    if fe is None:
        # admissible when nothing is lacking before the range end (half-open: positions < B; inclusive: <= B)
        if run_end < B:
            o.fail('find-end-missing', '%s -> %r: position %d (inside the range) already lacks %r' % (what, res, run_end, sel_texts))
    else:
        if not (fs < fe <= B):
            o.fail('find-end-out-of-range', '%s -> %r' % (what, res))
        elif fe != run_end:
            o.fail('find-end-wrong', '%s -> %r: first later position lacking %r is %d' % (what, res, sel_texts, run_end))


def pick_selection(per, sel):
    flat = []
    for p in per:
        for x in p:
            if x not in flat:
                flat.append(x)
    k = sel['k']
    if k == 'present' and flat:
        return (flat[sel['i'] % len(flat)],)
    if k == 'present2' and flat:
        # two settings that occur together somewhere, if possible
        both = [p for p in per if len(set(p)) >= 2]
        if both:
            p = list(dict.fromkeys(both[sel['i'] % len(both)]))
            return (p[0], p[-1])
        return (flat[sel['i'] % len(flat)],)
    if k == 'dup' and flat:
        x = flat[sel['i'] % len(flat)]
        both = [p for p in per if len(set(p)) >= 2]
        if both and sel['i'] % 2:
            p = list(dict.fromkeys(both[sel['i'] % len(both)]))
            return (p[0], p[-1], p[0])
        return (x, x)
    if k == 'absent':
        return ('35',)
    if k == 'empty':
        return ()
    return ('31',)


def mk_sel(texts, how):
    if not texts:
        return [[], '', (), [[]]][how % 4]
    if how % 3 == 0:
        return [AnsiSetting(x) for x in texts]
    if how % 3 == 1:
        return ['[' + x for x in texts]
    return tuple(AnsiSetting(x) for x in texts)


def eval_case(case, allranges=False):
    o = Outcome()
    try:
        # the queries are also issued between the steps of the history (their answers must never depend on earlier queries)
        prog = case['p']
        ip_ = Interp()
        v = ip_.build({'cls': prog.get('cls'), 'ctor': prog['ctor'], 'ops': []})
        for op_ in prog.get('ops', []):
            pre_per = per_char(v)
            sel0 = pick_selection(pre_per, case['sel'])
            if sel0:
                check_find(o, v, v.base_str, pre_per, sel0, mk_sel(sel0, case['how']), None, None, False,
                           '(between steps) %s.find_settings(%r)' % (describe(v), list(sel0)))
                v.find_settings(mk_sel(sel0, case['how']), 0, None, True)
            v = ip_.step(v, op_)
        per_char(v)
        str(v)
    except BuilderInvalid:
        o.skipped = 'builder_invalid'
        return o
    t, per = v.base_str, per_char(v)
    n = len(t)
    # ansi_settings_at / settings_at
    for i in list(range(-3, n + 3)) + [10 ** 6, -10 ** 6]:
        got = [str(x) for x in v.ansi_settings_at(i)]
        exp = list(per[i]) if 0 <= i < n else []
        if got != exp:
            o.fail('ansi_settings_at', '%s.ansi_settings_at(%d) = %r expected %r' % (describe(v), i, got, exp))
            break
        if v.settings_at(i) != ';'.join(exp):
            o.fail('settings_at', '%s.settings_at(%d) = %r expected %r' % (describe(v), i, v.settings_at(i), ';'.join(exp)))
            break
    sel_texts = pick_selection(per, case['sel'])
    settings = mk_sel(sel_texts, case['how'])
    if allranges:
        if n <= 20:
            rng = [None] + list(range(-n - 2, n + 3))
        else:
            pts = set([0, 1, n - 1, n, n + 2])
            for i in range(1, n):
                if per[i] != per[i - 1]:
                    pts.update([i - 1, i, i + 1])
            pts = sorted(x for x in pts if 0 <= x <= n + 2)
            pts = pts[:14] if n <= 100 else sorted(set(pts[:1] + pts[len(pts) // 2:len(pts) // 2 + 1] + pts[-2:]))   # each call costs ~15 ms there
            rng = [None] + pts + [x - n for x in pts if x - n < 0]
        for a in rng:
            for b in rng:
                for rev in (False, True):
                    check_find(o, v, t, per, sel_texts, settings, a, b, rev,
                               '%s.find_settings(%r, %r, %r, reverse=%r)' % (describe(v), list(sel_texts), a, b, rev))
                    if o.fails:
                        o.fails = o.fails[:2]
                        break
                if o.fails:
                    break
            if o.fails:
                break
    else:
        a, b, rev = resolve_idx(case['a'], v), resolve_idx(case['b'], v), case['rev']
        check_find(o, v, t, per, sel_texts, settings, a, b, rev,
                   '%s.find_settings(%r, %r, %r, reverse=%r)' % (describe(v), list(sel_texts), a, b, rev))
    hasl = [all(x in per[p] for x in sel_texts) for p in range(n)] if sel_texts else []
    runs = sum(1 for i in range(n) if hasl and hasl[i] and (i == 0 or not hasl[i - 1]))
    o.nontrivial = bool(sel_texts) and any(hasl) and not all(hasl) and (runs >= 2 or not case.get('rev') or allranges)
    o.key = [t, per, list(sel_texts), case.get('a'), case.get('b'), case.get('rev')]
    o.label('sel:' + case['sel']['k'], 'runs:%d' % min(runs, 3))
    return o


def strat(allr=False):
    sel = st.one_of(st.fixed_dictionaries({'k': st.just('present'), 'i': st.integers(0, 20)}),
                    st.fixed_dictionaries({'k': st.just('present'), 'i': st.integers(0, 20)}),
                    st.fixed_dictionaries({'k': st.just('present2'), 'i': st.integers(0, 20)}),
                    st.fixed_dictionaries({'k': st.just('dup'), 'i': st.integers(0, 20)}),
                    st.just({'k': 'absent'}), st.just({'k': 'empty'}))
    d = {'p': gen.progs(CFG), 'sel': sel, 'how': st.integers(0, 11)}
    if not allr:
        d.update({'a': gen.ridx(), 'b': gen.ridx(), 'rev': st.booleans()})
    return st.fixed_dictionaries(d)


def enum_small(tier):
    sels = [{'k': 'present', 'i': 0}, {'k': 'present', 'i': 1}, {'k': 'present2', 'i': 0}, {'k': 'dup', 'i': 1}]
    for names, depth, text in gen.small_scopes(tier):
        for i, p in enumerate(gen.small_values(names, depth, text)):
            if not p['ops'] or (tier == 'quick' and i % 3):
                continue
            yield {'p': p if i % 7 else dict(p, cls='s'), 'sel': sels[i % 4], 'how': i % 3}


SUBS = [
    Sub('find', eval_case, strategy=strat, quick=800, thorough=12000),
    Sub('small_exhaustive', lambda c: eval_case(c, True), enumerate=enum_small,
        rule='every value reachable from a plain text by <= 2 apply/remove steps over {red, blue, bold} on 3 characters and by <= 3 steps over {red, blue} on 2 (thorough: 3) characters (quick: every third) x every (start, end) in {None} U [-len-2, len+2] x reverse for a setting present in the value',
        exhaustive_note='values of the small scopes x all bounds x reverse'),
    Sub('allranges', lambda c: eval_case(c, True), strategy=lambda: strat(True), quick=60, thorough=800,
        rule='every (start, end) in {None} U [-len-2, len+2] x reverse for each generated value and selection'),
]
