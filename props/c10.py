"""C10 -- str-like methods agree with Python's str on the base text."""
from hypothesis import strategies as st
from vlib.core import Sub, Outcome
from vlib import sgrterm
from vlib import gen
from vlib.interp import run_bounded, StepLimit, describe
from ansi_string import AnsiString, AnsiStr

QUICK_SCALE = 1.0
RULE = ('base texts (ASCII + non-ASCII incl. characters whose case mapping changes length, empty, whitespace-only) wrapped '
        'in a partly formatted AnsiString and AnsiStr x argument tuples per method: substrings drawn from the text, '
        'overlapping/multi-char/empty patterns, start/end in {None} U [-len-2, len+2], counts in {-7,-2,-1,0,1,2,5}, widths in '
        '[0,len+6], fill characters, tuple suffixes, chars sets. Non-trivial = the argument interacts with the text '
        '(pattern occurs, a bound lies inside the text, width > len, text changes); distinct by (method, text, args). One case in six uses a '
        'base text that itself contains escape sequences (stored with assign_str; patterns up to 6 characters drawn from it), one in '
        'twelve a text of title/upper/lower-case words; replacement strings may contain SGR sequences.')
ASSUMPTIONS = ['documented deviations are applied to the expected side: center = format(t, fill^width); rpartition without '
               'match = (t, "", ""); expandtabs(n) = replace(tab, n spaces); zfill(w) = rjust(w, "0"); default strip set '
               '" \\t\\n\\r\\v\\f"; empty separator for split/rsplit/partition/rpartition is outside the claim',
               'each call runs under a deterministic line-event bound so that a non-terminating call is reported, not hung',
               'a str replacement is parsed like a constructor argument (documented): the expected inserted text is the replacement '
               'with its SGR sequences removed; a str operand of `in` containing ESC may be parsed or not (both answers accepted)']

ALPHA = list('abAB \t\n-:+01x') * 2 + list('\u00e9\u00df\u0130\u01c6\u4e2d') + ['\r', '\v', '\f', '\x1c', '\x85', '\u2028', '\u01c5', '\ufb01', '\r\n', '\r\n', '\n\r', '\u03a3', '\u03a3', '\u03c3', '\u03c2', '\u039f', '\u0149', '\u0130', '\u01c4', '\u01c7', '\u01ca', '\u01f1', '\u01c4b', '\u01f1a']
TITLE_WORDS = ['Ab', 'A', 'Bab', '\u01c4emal', '\u01c5a', '\u01c7b', '\u01f1a', '\u01caa', 'AB', 'ab', '\u00dfa', 'A\u00df', '\ufb01n', '\u0130a', '\u03a3\u03c2', 'B1a', '1a', '\u0149a']
QUERIES0 = ['isalnum', 'isalpha', 'isascii', 'isdecimal', 'isdigit', 'isidentifier', 'islower', 'isnumeric', 'isprintable',
            'isspace', 'istitle', 'isupper']
CASES = ['capitalize', 'casefold', 'lower', 'upper', 'swapcase', 'title']
WS = ' \t\n\r\v\f'
LIMIT = 400000


ESC_TOKENS = ['\x1b[1m', '\x1b[31m', '\x1b[m', '\x1b[2K', '\x1b', '[', 'm', '\x1b[0;4m']


def wrap(t, cls, raw=False):
    if raw:
        # the text is stored as it is (assign_str does not parse): escape sequences are ordinary characters of t
        v = AnsiString('q' * len(t))
    else:
        v = AnsiString(t)
    if len(t) >= 2:
        v.apply_formatting('bold', 1, len(t) - 1 or None)
    v.apply_formatting('red', 0, max(1, len(t) // 2))
    if raw:
        v.assign_str(t)
        if v.base_str != t:
            from vlib.core import HarnessError
            raise HarnessError('assign_str did not store the text')
    return AnsiStr(v) if cls == 's' else v


def texts_of(r):
    if isinstance(r, (list, tuple)):
        return type(r)(x.base_str if isinstance(x, (AnsiString, AnsiStr)) else x for x in r)
    if isinstance(r, (AnsiString, AnsiStr)):
        return r.base_str
    return r


def expected(m, t, a):
    if m == 'len':
        return len(t)
    if m == 'in':
        return a[0] in t
    if m in ('count', 'find', 'rfind', 'index', 'rindex'):
        return getattr(t, m)(a[0], a[1], a[2])
    if m == 'endswith':
        suf = tuple(a[0]) if isinstance(a[0], list) else a[0]
        return t.endswith(suf, a[1], a[2])
    if m in QUERIES0 or m in CASES:
        return getattr(t, m)()
    if m in ('strip', 'lstrip', 'rstrip'):
        return getattr(t, m)(WS if a[0] is None else a[0])
    if m in ('removeprefix', 'removesuffix'):
        return getattr(t, m)(a[0])
    if m == 'replace':
        # a str replacement is parsed like a constructor argument (documented): its text is what gets inserted
        return t.replace(a[0], sgrterm.strip_sgr(a[1]), a[2])
    if m in ('split', 'rsplit'):
        return getattr(t, m)(a[0], a[1])
    if m == 'splitlines':
        return t.splitlines(a[0])
    if m == 'partition':
        return t.partition(a[0])
    if m == 'rpartition':
        return t.rpartition(a[0]) if a[0] in t else (t, '', '')
    if m in ('ljust', 'rjust'):
        return getattr(t, m)(a[0], a[1])
    if m == 'center':
        return format(t, a[1] + '^' + str(a[0])) if a[0] > len(t) else t
    if m == 'zfill':
        return t.rjust(a[0], '0')
    if m == 'expandtabs':
        return t.replace('\t', ' ' * a[0])
    raise AssertionError(m)


def actual(m, v, a, new_kind):
    if m == 'len':
        return len(v)
    if m == 'in':
        x = a[0]
        if new_kind == 'S':
            x = AnsiString(x, 'blue')
        elif new_kind == 's':
            x = AnsiStr(x, 'blue')
        return x in v
    if m in ('count', 'find', 'rfind', 'index', 'rindex'):
        return getattr(v, m)(a[0], a[1], a[2])
    if m == 'endswith':
        suf = tuple(a[0]) if isinstance(a[0], list) else a[0]
        return v.endswith(suf, a[1], a[2])
    if m in QUERIES0 or m in CASES:
        return getattr(v, m)()
    if m in ('strip', 'lstrip', 'rstrip'):
        return getattr(v, m)(a[0])
    if m in ('removeprefix', 'removesuffix'):
        return getattr(v, m)(a[0])
    if m == 'replace':
        new = a[1]
        if new_kind == 'S':
            new = AnsiString(new, 'blue')
        elif new_kind == 's':
            new = AnsiStr(new, 'blue')
        return v.replace(a[0], new, a[2])
    if m in ('split', 'rsplit'):
        return getattr(v, m)(a[0], a[1])
    if m == 'splitlines':
        return v.splitlines(a[0])
    if m in ('partition', 'rpartition'):
        return tuple(getattr(v, m)(a[0]))
    if m in ('ljust', 'rjust', 'center'):
        return getattr(v, m)(a[0], a[1])
    if m == 'zfill':
        return v.zfill(a[0])
    if m == 'expandtabs':
        return v.expandtabs(a[0])
    raise AssertionError(m)


def eval_case(case):
    o = Outcome()
    t, m, a = case['t'], case['m'], case['a']
    nk = case.get('nk', 'str')
    nargs = {'in': 1, 'count': 3, 'find': 3, 'rfind': 3, 'index': 3, 'rindex': 3, 'endswith': 3, 'strip': 1, 'lstrip': 1, 'rstrip': 1,
             'removeprefix': 1, 'removesuffix': 1, 'replace': 3, 'split': 2, 'rsplit': 2, 'splitlines': 1, 'partition': 1,
             'rpartition': 1, 'ljust': 2, 'rjust': 2, 'center': 2, 'zfill': 1, 'expandtabs': 1}.get(m, 0)
    if len(a) != nargs or not isinstance(t, str):
        from vlib.core import HarnessError
        raise HarnessError('malformed case')
    if m in ('split', 'rsplit', 'partition', 'rpartition') and a[0] == '':
        o.skipped = 'empty-separator-outside-claim'
        return o
    try:
        exp = ('ok', expected(m, t, a))
    except Exception as e:
        exp = ('exc', type(e).__name__)
    raw = bool(case.get('raw'))
    if not raw and '\x1b' in t:
        from vlib.core import HarnessError
        raise HarnessError('malformed case')
    alt = None
    if m == 'in' and exp[0] == 'ok' and '\x1b' in a[0]:
        # a str operand of `in` is parsed first (documented for str operands): both readings are accepted
        alt = ('ok', sgrterm.strip_sgr(a[0]) in t)
    if m == 'replace' and '\x1b' in a[1] and AnsiString(a[1]).base_str != sgrterm.strip_sgr(a[1]):
        o.skipped = 'replacement-text-ambiguous'
        return o
    for cls in ('S', 's'):
        v = wrap(t, cls, raw)
        try:
            if case.get('large'):
                r = actual(m, v, a, nk)   # sizes in the thousands: not traced (the line-event bound is C09's business)
            else:
                r, _ = run_bounded(lambda: actual(m, v, a, nk), LIMIT + 2000 * len(t))
            got = ('ok', texts_of(r))
            if m in ('split', 'rsplit', 'splitlines') and isinstance(r, list):
                got = ('ok', list(got[1]))
            if m in ('partition', 'rpartition'):
                got = ('ok', tuple(got[1]))
        except StepLimit:
            got = ('nonterminating', None)
        except Exception as e:
            from vlib.core import lib_frame
            if lib_frame(e)[0] != 'lib':
                raise
            got = ('exc', type(e).__name__)
        if got != exp and got != alt:
            o.fail('%s-%s' % (m, 'exc' if got[0] != 'ok' or exp[0] != 'ok' else 'differs'),
                   '%s(%r).%s%r -> %r; str gives %r' % ('AnsiString' if cls == 'S' else 'AnsiStr', t, m, tuple(a), got, exp))
    # non-trivial
    nt = False
    if exp[0] == 'ok':
        e = exp[1]
        if m in ('count',):
            nt = e > 0
        elif m in ('find', 'rfind', 'index', 'rindex'):
            nt = e >= 0 and a[0] != ''
        elif m == 'in':
            nt = bool(e) and a[0] != ''
        elif m == 'endswith':
            nt = bool(e)
        elif m in QUERIES0:
            nt = len(t) > 0
        elif isinstance(e, str):
            nt = e != t
        elif isinstance(e, (list, tuple)):
            nt = len([x for x in e if x != '']) >= 2
        elif m == 'len':
            nt = len(t) > 0
    o.nontrivial = nt
    o.label(m)
    if raw:
        o.label('raw-text')
    return o


@st.composite
def strat(draw):
    n = draw(st.integers(0, 12))
    t = ''.join(draw(st.lists(st.sampled_from(ALPHA), min_size=n, max_size=n)))
    mode = draw(st.integers(0, 11))
    raw = False
    if mode == 0:
        t = ''.join(draw(st.lists(st.sampled_from(list(WS)), max_size=4)))
    elif mode == 1:
        # words in title / upper / lower case (istitle(), isupper(), islower() hold for the whole text)
        ws = draw(st.lists(st.sampled_from(TITLE_WORDS), min_size=1, max_size=4))
        t = draw(st.sampled_from([' ', '-', "'", '  '])).join(ws)
    elif mode in (2, 3):
        # base text that contains escape sequences (stored with assign_str)
        raw = True
        t = ''.join(draw(st.lists(st.sampled_from(ALPHA[:28] + ESC_TOKENS * 3), min_size=n, max_size=n)))
    elif mode == 4:
        # signed numbers (str.zfill is sign-aware, the documented zfill is not)
        t = draw(st.sampled_from(['-1', '+0', '-', '+', '--1', '-a', '+12', '-0.5'])) + t[:4]
    L = len(t)

    def sub(maxlen=3, allow_empty=True):
        k = draw(st.integers(0, 5))
        if L > 0 and k < 4:
            i = draw(st.integers(0, L - 1))
            j = draw(st.integers(i + (0 if allow_empty else 1), min(L, i + maxlen)))
            s = t[i:j]
            if s or allow_empty:
                return s
        return ''.join(draw(st.lists(st.sampled_from(list('abAB -:\t\n1é')), min_size=0 if allow_empty else 1, max_size=2)))
    bound = st.one_of(st.none(), st.integers(-L - 2, L + 2))
    m = draw(st.sampled_from(['len', 'in', 'count', 'find', 'rfind', 'index', 'rindex', 'endswith', 'endswith'] + QUERIES0 + CASES +
                             ['strip', 'lstrip', 'rstrip', 'removeprefix', 'removesuffix', 'replace', 'replace', 'split', 'rsplit',
                              'splitlines', 'partition', 'rpartition', 'ljust', 'rjust', 'center', 'zfill', 'expandtabs'] * 2))
    nk = 'str'
    if m == 'len' or m in QUERIES0 or m in CASES:
        a = []
    elif m == 'in':
        a = [sub()]
        nk = draw(st.sampled_from(['str', 'S', 's']))
    elif m in ('count', 'find', 'rfind', 'index', 'rindex'):
        a = [sub(), draw(bound), draw(bound)]
    elif m == 'endswith':
        if draw(st.booleans()):
            a = [t[draw(st.integers(0, L)):] if draw(st.booleans()) else sub(), draw(bound), draw(bound)]
        else:
            a = [[sub(), sub(), t[L // 2:]], draw(bound), draw(bound)]
    elif m in ('strip', 'lstrip', 'rstrip'):
        if draw(st.integers(0, 2)) == 0:
            a = [None]
        else:
            pool = (t[:2] + t[-2:] + ' ab\t') if L else ' ab'
            a = [''.join(draw(st.lists(st.sampled_from(list(pool)), max_size=4)))]
    elif m == 'removeprefix':
        a = [t[:draw(st.integers(0, min(L, 3)))] if draw(st.booleans()) else sub()]
    elif m == 'removesuffix':
        a = [t[L - draw(st.integers(0, min(L, 3))):] if draw(st.booleans()) else sub()]
    elif m == 'replace':
        a = [sub(2) if not raw else sub(6), draw(st.sampled_from(['', 'x', 'ab', 'é', t[:1], sub(2), '\x1b[1mb', 'a\x1b[31m', '\x1b[m', '\x1b[2Kx'])),
             draw(st.sampled_from([-1, -1, 0, 1, 2, 5, -2, -7]))]
        nk = draw(st.sampled_from(['str', 'str', 'S', 's']))
    elif m in ('split', 'rsplit'):
        a = [draw(st.one_of(st.none(), st.just(sub(2 if not raw else 6, False)))), draw(st.sampled_from([-1, -1, 0, 1, 2, 5, -2, -7]))]
    elif m == 'splitlines':
        a = [draw(st.booleans())]
    elif m in ('partition', 'rpartition'):
        a = [sub(2, False)]
    elif m in ('ljust', 'rjust', 'center'):
        a = [draw(st.integers(0, L + 6)), draw(st.sampled_from([' ', '*', '0', ':', '+', '-', '<', 'é', '{']))]
    elif m == 'zfill':
        a = [draw(st.integers(0, L + 6))]
    elif m == 'expandtabs':
        a = [draw(st.integers(0, 9))]
    c = {'t': t, 'm': m, 'a': a, 'nk': nk}
    if raw:
        c['raw'] = True
    return c


def enum_large(tier):
    """sizes in the thousands: more matches / pieces / padding than any recursion limit, small-int cache or chunk size"""
    n = 1100 if tier == 'quick' else 2600
    yield {'t': 'a,' * n, 'm': 'replace', 'a': [',', ';', -1], 'nk': 'str', 'large': True}
    yield {'t': 'a,' * n, 'm': 'replace', 'a': [',', '', n - 3], 'nk': 'str', 'large': True}
    yield {'t': 'ab' * n, 'm': 'replace', 'a': ['b', 'xy', -1], 'nk': 'S', 'large': True}
    yield {'t': 'x\t' * n, 'm': 'expandtabs', 'a': [1], 'large': True}
    yield {'t': 'x\t' * n, 'm': 'expandtabs', 'a': [0], 'large': True}
    yield {'t': 'a b ' * n, 'm': 'split', 'a': [None, -1], 'large': True}
    yield {'t': 'a,b' * n, 'm': 'rsplit', 'a': [',', n // 2], 'large': True}
    yield {'t': 'line\n' * n, 'm': 'splitlines', 'a': [True], 'large': True}
    yield {'t': 'ab' * 200, 'm': 'center', 'a': [5000, '*'], 'large': True}
    yield {'t': 'ab' * 200, 'm': 'rjust', 'a': [3001, '0'], 'large': True}
    yield {'t': ' ' * n + 'core' + '\t' * n, 'm': 'strip', 'a': [None], 'large': True}
    yield {'t': 'é' * n, 'm': 'upper', 'a': [], 'large': True}
    yield {'t': 'ab' * n, 'm': 'count', 'a': ['ab', 300, -300], 'large': True}
    yield {'t': 'ab' * n, 'm': 'rfind', 'a': ['ba', 257, 2 * n - 257], 'large': True}
    yield {'t': 'ab' * n, 'm': 'partition', 'a': ['ba' * 300], 'large': True}


def self_test():
    assert expected('center', 'ab', [5, '*']) == '*ab**'
    assert expected('rpartition', 'abc', ['x']) == ('abc', '', '')
    assert expected('expandtabs', 'a\tb', [2]) == 'a  b'
    assert expected('zfill', '-1', [4]) == '00-1'
    assert expected('strip', '\x1c a \x1c', [None]) == '\x1c a \x1c'


SUBS = [
    Sub('large_inputs', eval_case, enumerate=enum_large, exhaustive_note='fixed list of calls with sizes in the thousands (more than 1000 matches / pieces, widths of thousands)'),
    Sub('methods', eval_case, strategy=strat, quick=2500, thorough=30000),
]
