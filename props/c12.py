"""C12 -- padding / format-spec: text as format(), fill styled only when extending."""
import re
from hypothesis import strategies as st
from vlib.core import Sub, Outcome, HarnessError
from vlib import gen, sgrterm
from vlib.interp import (Interp, BuilderInvalid, per_char, same_settings, tail_settings, change_points, describe, wellformed,
                         renders)
from ansi_string import AnsiString, AnsiStr

RULE = ('values with position-dependent formatting (ESC-free) x width in [0,len+7] x fill in {space,*,0,:,+,-,<,5,e-acute} x '
        'alignment x extend flag x ansi part in {absent, empty, one name, a;b, rgb() string, verbatim, invalid name}; specs are '
        'built from components and also drawn free-form over a small alphabet to reach the error paths. '
        'Non-trivial = width > len on a value with >=1 change point (methods) / a spec with padding and an ansi part or the '
        '"-" flag (specs); distinct by (text, per-character settings, arguments).')
ASSUMPTIONS = ['documented grammar [[fill][+|-](<|>|^)][width][:ansi]; fill/flag only with an explicit alignment; a spec with '
               'several parses (fill ":" / "+" / "-") may follow any of them; zero parses => ValueError',
               'format()/to_str(spec) returns a string: it is compared with the rendering of "pad a copy, then '
               'apply_formatting" - equal string, or display-identical on the reference terminal for well-formed settings']

CFG = gen.Cfg(esc=True, odd=0.1, invalid=False, incomplete=False, max_ops=3, rich=True, min_text=0, max_text=8)
FILLS = [' ', '*', '0', ':', '+', '-', '<', '5', 'é']


def build(case, o):
    try:
        return Interp().build_checked(case['p'])
    except BuilderInvalid:
        o.skipped = 'builder_invalid'
        return None


def expected_pad(t, per, align, width, fill, extend):
    """(text, per) after padding, from the property statement."""
    L = len(t)
    if width <= L:
        return t, list(per)
    num = width - L
    if align == '<':
        left, right = 0, num
    elif align == '>':
        left, right = num, 0
    else:
        left = num // 2
        right = num - left
    text = fill * left + t + fill * right
    assert text == format(t, fill + align + str(width)), (text, format(t, fill + align + str(width)))
    lf = per[0] if (extend and L) else ()
    rf = per[-1] if (extend and L) else ()
    return text, [lf] * left + list(per) + [rf] * right


def check_padded(o, what, r, etext, eper, cls):
    if type(r).__name__ != cls:
        o.fail('result-type', '%s -> %s' % (what, type(r).__name__))
    if r.base_str != etext:
        o.fail('pad-text', '%s -> %r, format() gives %r' % (what, r.base_str, etext))
        return
    pr = per_char(r)
    for k in range(len(etext)):
        if not same_settings(pr[k], eper[k]):
            o.fail('pad-settings', '%s -> %s: char %d reports %r expected %r' % (what, describe(r), k, pr[k], eper[k]))
            break
    if tail_settings(r) != ():
        o.fail('pad-not-closed', '%s -> %s: appended Z reports %r' % (what, describe(r), tail_settings(r)))


def eval_method(case):
    o = Outcome()
    v = build(case, o)
    if v is None:
        return o
    t, per = v.base_str, per_char(v)
    cls = type(v).__name__
    m, w, f, ext, ip = case['m'], case['w'], case['f'], case['ext'], case['ip']
    if case.get('wrel') is not None:
        w = len(t) + case['wrel']
    align = {'ljust': '<', 'rjust': '>', 'center': '^', 'zfill': '>'}[m]
    if m == 'zfill':
        f = '0'
    if cls == 'AnsiStr':
        ext, ip = True, False
    if m == 'zfill':
        ext = True
    etext, eper = expected_pad(t, per, align, w, f, ext)
    what = '%s.%s(%r, %r, extend_formatting=%r)' % (describe(v), m, w, f, ext)
    if cls == 'AnsiStr':
        r = v.zfill(w) if m == 'zfill' else getattr(v, m)(w, f)
    else:
        c = v.copy()
        if m == 'zfill':
            r = c.zfill(w, inplace=ip)
        else:
            r = getattr(c, m)(w, f, inplace=ip, extend_formatting=ext)
        if ip and r is not c:
            o.fail('inplace-not-receiver', what)
        if not ip and (per_char(c) != per or c.base_str != t):
            o.fail('receiver-changed', what)
        r2 = v.copy()
        r2 = v.zfill(w) if m == 'zfill' else getattr(v, m)(w, f, extend_formatting=ext)
        if not (r2 == r) and ip:
            o.fail('inplace-differs', '%s: inplace %s vs copy %s' % (what, describe(r), describe(r2)))
    check_padded(o, what, r, etext, eper, cls)
    if per_char(v) != per or v.base_str != t:
        o.fail('receiver-changed', what)
    o.nontrivial = w > len(t) and change_points(per) >= 1
    o.key = [t, per, m, w, f, ext]
    o.label(m, 'ext' if ext else 'noext', 'pad' if w > len(t) else 'nopad', 'cp:%d' % min(change_points(per), 3))
    return o


# ---- independent spec parser: all parses under the documented grammar
SF = re.compile(r'^(?:(?P<fill>.)?(?P<flag>[+-])?(?P<align>[<>^]))?(?P<width>[0-9]*)$', re.S)


def parses(spec):
    out = []
    cuts = [None] + [i for i, ch in enumerate(spec) if ch == ':']
    for c in cuts:
        sf = spec if c is None else spec[:c]
        ansi = None if c is None else spec[c + 1:]
        # enumerate fill/flag splits explicitly (regex alone would pick one)
        m = re.match(r'^[0-9]*$', sf)
        if m:
            out.append(dict(fill=' ', extend=True, align='<', width=sf, ansi=ansi))
        for i, ch in enumerate(sf):
            if ch in '<>^' and re.match(r'^[0-9]*$', sf[i + 1:]):
                head = sf[:i]
                if head == '':
                    out.append(dict(fill=' ', extend=True, align=ch, width=sf[i + 1:], ansi=ansi))
                elif len(head) == 1:
                    out.append(dict(fill=head, extend=True, align=ch, width=sf[i + 1:], ansi=ansi))
                    if head in '+-':
                        out.append(dict(fill=' ', extend=(head == '+'), align=ch, width=sf[i + 1:], ansi=ansi))
                elif len(head) == 2 and head[1] in '+-':
                    out.append(dict(fill=head[0], extend=(head[1] == '+'), align=ch, width=sf[i + 1:], ansi=ansi))
    # dedupe
    res = []
    for p in out:
        if p not in res:
            res.append(p)
    return res


def expected_for_parse(v, p):
    """Returns ('ok', AnsiString) or ('err', exc)."""
    c = AnsiString(v)
    meth = {'<': 'ljust', '>': 'rjust', '^': 'center'}[p['align']]
    try:
        if not p['extend'] and p['ansi']:
            c.apply_formatting(p['ansi'])
        if p['width'] != '':
            getattr(c, meth)(int(p['width']), p['fill'], inplace=True, extend_formatting=p['extend'])
        if p['extend'] and p['ansi']:
            c.apply_formatting(p['ansi'])
    except (ValueError, TypeError) as e:
        return 'err', e
    return 'ok', c


def eval_spec(case):
    o = Outcome()
    v = build(case, o)
    if v is None:
        return o
    t, per = v.base_str, per_char(v)
    spec = case['spec']
    if '\n' in spec or '\x1b' in spec:
        raise HarnessError('spec alphabet')
    ps = parses(spec) if spec != '' else [dict(fill=' ', extend=True, align='<', width='', ansi=None)]
    exps = [expected_for_parse(v, p) for p in ps]
    what = 'format(%s, %r)' % (describe(v), spec)
    before = (t, per, renders(v))
    outs = []
    for nm, fn in (('format', lambda: format(v, spec)), ('to_str', lambda: v.to_str(spec)), ('fstring', lambda: ('{:' + spec + '}').format(v) if ('{' not in spec and '}' not in spec) else format(v, spec))):
        try:
            outs.append((nm, 'ok', fn()))
        except ValueError as e:
            outs.append((nm, 'err', e))
    if (v.base_str, per_char(v), renders(v)) != before:
        o.fail('receiver-changed', what)
    wf = wellformed(per)
    for nm, kind, val in outs:
        if not ps:
            if kind != 'err':
                o.fail('invalid-spec-accepted', '%s via %s -> %r but the spec is outside the grammar' % (what, nm, val))
            continue
        if kind == 'err':
            if not any(k == 'err' for k, _ in exps):
                o.fail('valid-spec-rejected', '%s via %s raised %r; parses %r' % (what, nm, val, ps))
            continue
        ok = False
        for k, e in exps:
            if k == 'ok' and e.to_str() == val:
                ok = True
        if not ok and wf:
            got = sgrterm.run(val)
            for k, e in exps:
                if k != 'ok' or not wellformed(per_char(e)):
                    continue
                ex = sgrterm.run(e.to_str())
                if (got[0], got[1]) == (ex[0], ex[1]):
                    ok = True
        if not ok:
            o.fail('spec-result', '%s via %s -> %r; pad-then-apply on a copy gives %r' % (
                what, nm, val, [e.to_str() if k == 'ok' else 'ValueError' for k, e in exps]))
    # the rendering flags must mean the same with a spec as without one: to_str(spec, flags) == (pad-then-apply copy).to_str(None, flags)
    if len(ps) == 1 and exps[0][0] == 'ok':
        from vlib.interp import FLAGS8
        for (opt, rs, re_) in FLAGS8:
            try:
                got = v.to_str(spec, opt, rs, re_)
            except ValueError as e:
                o.fail('spec-flags-raised', '%s: to_str(%r, optimize=%s, reset_start=%s, reset_end=%s) raised %r' % (what, spec, opt, rs, re_, e))
                break
            want = exps[0][1].to_str(None, opt, rs, re_)
            if got != want:
                ok2 = False
                if wf and wellformed(per_char(exps[0][1])):
                    a_, b_ = sgrterm.run(got), sgrterm.run(want)
                    d1, d2 = sgrterm.run(got, sgrterm.DIRTY), sgrterm.run(want, sgrterm.DIRTY)
                    ok2 = (a_[0], a_[1]) == (b_[0], b_[1]) and (not rs or (d1[0], d1[1]) == (d2[0], d2[1]))
                if not ok2:
                    o.fail('spec-flags', '%s: to_str(%r, optimize=%s, reset_start=%s, reset_end=%s) -> %r; the padded copy renders %r' % (
                        what, spec, opt, rs, re_, got, want))
                    break
    if len(ps) > 1:
        o.label('multi-parse')
    if not ps:
        o.label('no-parse')
    nt = False
    for p in ps:
        if p['width'] and int(p['width']) > len(t) and (p['ansi'] or not p['extend']):
            nt = True
    o.nontrivial = nt
    o.key = [t, per, spec]
    return o


def eval_spec_semantics(case):
    """property wording checked directly for single-parse specs: text, original chars keep settings, fill chars styled
    only when extending, ansi part on whole result when extending / only original chars otherwise."""
    o = Outcome()
    v = build(case, o)
    if v is None:
        return o
    t, per = v.base_str, per_char(v)
    fill, flag, align, width, ansi = case['fill'], case['flag'], case['align'], case['width'], case['ansi']
    spec = (fill or '') + (flag or '') + align + str(width) + (':' + ansi if ansi is not None else '')
    ps = parses(spec)
    if len(ps) != 1 or not wellformed(per):
        o.skipped = 'multi-parse-or-not-wellformed'
        return o
    if '\x1b' in t or '\x1b' in (fill or ''):
        # the displayed text is read off the reference terminal: escape bytes inside the text itself would be
        # interpreted there together with the rendering's own sequences (the `spec` sub-check covers such texts)
        o.skipped = 'esc-in-text'
        return o
    extend = flag != '-'
    etext, eper = expected_pad(t, per, align, width, fill or ' ', extend)
    L = len(t)
    left = etext.find(t) if L else 0
    if L and width > L:
        left = {'<': 0, '>': width - L, '^': (width - L) // 2}[align]
    E = ()
    if ansi:
        x = AnsiString('x')
        x.apply_formatting(ansi)
        E = tuple(str(s) for s in x.ansi_settings_at(0))
    full = []
    for k, p in enumerate(eper):
        orig = left <= k < left + L
        if E and (extend or orig):
            full.append(tuple(p) + E)
        else:
            full.append(tuple(p))
    from vlib.interp import styles
    est = styles(full)
    out = format(v, spec)
    cells, fin, amb = sgrterm.run(out)
    what = 'format(%s, %r)' % (describe(v), spec)
    if ''.join(c for c, _ in cells) != etext:
        o.fail('spec-text', '%s -> %r displays %r expected %r' % (what, out, ''.join(c for c, _ in cells), etext))
        return o
    from vlib.interp import groups
    gE = set()
    for x in E:
        gE |= groups(x)
    for k in range(len(etext)):
        gp = set()
        for x in eper[k]:
            gp |= groups(x)
        if E and (gp & gE or '*' in gp or '*' in gE):
            continue   # precedence between the ansi part and existing settings is apply_formatting's business (C06)
        if cells[k][1] != est[k]:
            o.fail('spec-style', '%s -> %r: char %d displayed %r expected %r (settings %r)' % (what, out, k, cells[k][1], est[k], full[k]))
            break
    o.nontrivial = width > L and (bool(E) or not extend) and change_points(per) >= 1
    o.key = [t, per, spec]
    o.label('ext' if extend else 'noext', 'ansi' if E else 'noansi', 'pad' if width > L else 'nopad')
    return o


ANSI_PARTS = [None, None, '', 'red', 'bold;red', 'rgb(1,2,3)', 'bg_blue', '1;31', '[38;5;3', 'nope', 'underline;no_underline',
              'fg_default', 'red:x', 'BOLD', 'bg_rgb(0x10, 2, 3)']
GOOD_ANSI = [None, None, '', 'red', 'bold;red', 'rgb(1,2,3)', 'bg_blue', '1;31', 'underline', 'fg_default', 'BOLD', 'faint']


_P = []


CFG_PLAIN = gen.Cfg(esc=False, odd=0.0, max_ops=1, min_text=0, max_text=6, ansi_ctor=False)


def _prog():
    if not _P:
        # formatted (position-dependent) values, general values, and values with no formatting at all
        _P.append(gen.weighted((5, gen.prog(CFG)), (2, gen.prog(CFG_PLAIN)),
                               (2, gen.texts(0, 6).map(lambda t: {'cls': 'S', 'ctor': {'k': 'plain', 't': t}, 'ops': []})),
                               (1, gen.texts(0, 6).map(lambda t: {'cls': 's', 'ctor': {'k': 'plain', 't': t}, 'ops': [{'op': 'clear'}]}))))
    return _P[0]


@st.composite
def strat_spec(draw):
    p = draw(_prog())
    if draw(st.integers(0, 3)) > 0:
        fill = draw(st.sampled_from([''] * 3 + FILLS))
        flag = draw(st.sampled_from(['', '', '+', '-']))
        align = draw(st.sampled_from(['<', '>', '^', '^', '>', '']))
        width = draw(st.sampled_from(['', '0', '3', '5', '7', '9', '12', '007', '10', '05', '09']))
        ansi = draw(st.sampled_from(ANSI_PARTS))
        spec = fill + flag + align + width + ('' if ansi is None else ':' + ansi)
    else:
        spec = ''.join(draw(st.lists(st.sampled_from(list(':+-<>^ 0159x;') + ['red', 'bold', 's', '.1', 'd', '#', ',', '_', '=', '5s']), max_size=7)))
    return {'p': p, 'spec': spec}


@st.composite
def strat_sem(draw):
    p = draw(_prog())
    return {'p': p, 'fill': draw(st.sampled_from([None, None, '*', '0', 'é', '5', '.', '_'])), 'flag': draw(st.sampled_from([None, '+', '-', '-'])),
            'align': draw(st.sampled_from(['<', '>', '^'])), 'width': draw(st.integers(0, 14)), 'ansi': draw(st.sampled_from(GOOD_ANSI))}


def strat_method():
    return st.fixed_dictionaries({'p': gen.weighted((9, gen.prog(CFG)), (3, gen.progs(CFG)), (1, gen.prog_huge(CFG))), 'wrel': gen.weighted((2, st.none()), (1, st.integers(-2, 14))), 'm': st.sampled_from(['ljust', 'rjust', 'center', 'center', 'zfill']),
                                  'w': gen.weighted((8, st.integers(0, 15)), (1, st.integers(16, 400))), 'f': st.sampled_from(FILLS), 'ext': st.booleans(), 'ip': st.booleans()})


def self_test():
    assert parses('>10') == [dict(fill=' ', extend=True, align='>', width='10', ansi=None)]
    assert parses('5') == [dict(fill=' ', extend=True, align='<', width='5', ansi=None)]
    assert dict(fill=':', extend=True, align='<', width='5', ansi='red') in parses(':<5:red')
    assert len(parses('+<5')) == 2 and len(parses('-<5')) == 2
    assert parses('x-^7:bold') == [dict(fill='x', extend=False, align='^', width='7', ansi='bold')]
    assert parses('+5') == [] and parses(' 5') == [] and parses('x5') == [] and parses('<5x') == [] and parses('00<5') == []
    assert parses(':red') == [dict(fill=' ', extend=True, align='<', width='', ansi='red')]
    assert expected_pad('ab', [('1',), ('2',)], '^', 5, '*', True) == ('*ab**', [('1',), ('1',), ('2',), ('2',), ('2',)])


SUBS = [
    Sub('methods', eval_method, strategy=strat_method, quick=600, thorough=10000),
    Sub('spec', eval_spec, strategy=strat_spec, quick=600, thorough=10000),
    Sub('spec_semantics', eval_spec_semantics, strategy=strat_sem, quick=500, thorough=8000),
]
