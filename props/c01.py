"""C01 -- rendered output displays the text with exactly the reported per-character styles."""
import re, itertools
from hypothesis import strategies as st
from vlib.core import Sub, Outcome
from vlib import gen, sgrterm
from vlib.interp import (Interp, BuilderInvalid, per_char, change_points, describe, wellformed, styles, FLAGS8)
from ansi_string import AnsiString, AnsiStr

RULE = ('values = generated programs with well-formed settings (known, clear, reset, unknown, multi-group verbatim) and '
        'ESC-free text, each rendered under all 8 optimize/reset_start/reset_end combinations plus str()/format()/f-string; '
        'sub-check bridge enumerates every ordered pair of style states from a pool covering all effect groups '
        '(apply codes, clear codes, 256/rgb colours, two-setting states) in 4 layouts x 8 flag combinations. '
        'Non-trivial = >=2 change points with different effective styles and at least one transition that clears an '
        'effect; distinct by (text, per-character settings).')
ASSUMPTIONS = ['conforming terminal = vlib/sgrterm.py: one slot per effect group, empty parameter = 0 (ECMA-48 default)',
               'only values whose reported settings are plain digit/";" parameter strings forming complete groups are asserted']

CFG = gen.Cfg(esc=False, odd=0.25, invalid=False, incomplete=False, max_ops=5)
RESET_HEAD = re.compile('\x1b\\[0*[;m]')
ANY_SGR = re.compile('\x1b\\[[\x20-\x3f]*m')


def check_render(o, v, t, per, tag=''):
    sty = styles(per)
    outs = {}
    for (opt, rs, re_) in FLAGS8:
        out = v.to_str(None, opt, rs, re_)
        outs[(opt, rs, re_)] = out
        ft = 'optimize=%s reset_start=%s reset_end=%s' % (opt, rs, re_)
        cells, fin, amb = sgrterm.run(out)
        bad = amb - {'empty'}
        if bad:
            o.fail('malformed-output', '%s %s -> %r (%s)' % (describe(v), ft, out, sorted(bad)))
            continue
        if ''.join(c for c, _ in cells) != t:
            o.fail('displayed-text', '%s %s -> %r displays %r' % (describe(v), ft, out, ''.join(c for c, _ in cells)))
            continue
        for k in range(len(t)):
            if cells[k][1] != sty[k]:
                o.fail('style' + ('-opt' if opt else '-noopt'), '%s %s -> %r: char %d displayed %r, settings %r mean %r' % (
                    describe(v), ft, out, k, cells[k][1], per[k], sty[k]))
                break
        emitted = bool(ANY_SGR.search(out))
        if re_ and emitted and fin != ():
            o.fail('reset_end-not-default', '%s %s -> %r leaves terminal in %r' % (describe(v), ft, out, fin))
        if rs:
            if not RESET_HEAD.match(out):
                o.fail('reset_start-missing', '%s %s -> %r does not begin with a reset' % (describe(v), ft, out))
            dcells, dfin, _ = sgrterm.run(out, sgrterm.DIRTY)
            if dcells != cells:
                o.fail('reset_start-depends-on-prior-state', '%s %s -> %r' % (describe(v), ft, out))
            if re_ and dfin != ():
                o.fail('reset_end-not-default', '%s %s -> %r from dirty state leaves %r' % (describe(v), ft, out, dfin))
    # a format spec that changes nothing ('<': left-justify, no width, no ansi part) must not change what the flags mean
    for (opt, rs, re_) in FLAGS8:
        try:
            with_spec = v.to_str('<', opt, rs, re_)
        except ValueError:
            break   # the spec grammar is C12's business
        if with_spec != outs[(opt, rs, re_)]:
            o.fail('noop-spec-changes-rendering', "%s: to_str('<', optimize=%s, reset_start=%s, reset_end=%s) -> %r; without the spec %r" % (
                describe(v), opt, rs, re_, with_spec, outs[(opt, rs, re_)]))
            break
    for rs in (False, True):
        for re_ in (True, False):
            a, b = outs[(True, rs, re_)], outs[(False, rs, re_)]
            ra, rb = sgrterm.run(a), sgrterm.run(b)
            if (ra[0], ra[1]) != (rb[0], rb[1]):
                o.fail('optimize-not-equivalent', '%s: optimize=True %r vs optimize=False %r' % (describe(v), a, b))
    return outs


def eval_render(case):
    o = Outcome()
    try:
        v = Interp().build_checked(case['p'])
    except BuilderInvalid:
        o.skipped = 'builder_invalid'
        return o
    t, per = v.base_str, per_char(v)
    if '\x1b' in t or not wellformed(per):
        o.skipped = 'not-wellformed-or-esc'
        return o
    outs = check_render(o, v, t, per)
    d = outs[(True, False, True)]
    for nm, got in (('str', str(v)), ('format', format(v, '')), ('fstring', f'{v}'), ('to_str()', v.to_str())):
        if got != d:
            o.fail('default-render-differs', '%s: %s gives %r, to_str defaults give %r' % (describe(v), nm, got, d))
    if isinstance(v, AnsiStr):
        if str.__str__(v) != d:
            o.fail('ansistr-payload', describe(v))
    if isinstance(v, AnsiString) and not o.fails:
        # an AnsiStr made from this value must keep rendering what it reports, whatever happens to the source afterwards
        b = AnsiStr(v)
        v.apply_formatting('italic', 0, max(1, len(t) // 2))
        v += 'q'
        tb, pb = b.base_str, per_char(b)
        if wellformed(pb):
            outs_b = check_render(o, b, tb, pb)
            dflt = outs_b[(True, False, True)]
            for nm, got in (('str', str(b)), ('format', format(b, '')), ('payload', str.__str__(b)), ('%s', '%s' % b)):
                if got != dflt:
                    o.fail('ansistr-after-source-mutation', 'AnsiStr made from %r %s: %s gives %r but to_str() gives %r (reports %s)' % (
                        t, per, nm, got, dflt, describe(b)))
                    break
    sty = styles(per)
    trans = [(sty[i - 1], sty[i]) for i in range(1, len(sty)) if sty[i] != sty[i - 1]]
    clears = any(set(dict(a)) - set(dict(b)) for a, b in trans)
    o.nontrivial = len(trans) >= 2 and clears
    o.key = [t, per]
    o.label('trans:%d' % min(len(trans), 4), 'optimizable' if v.is_optimizable() else 'not-optimizable')
    if clears:
        o.label('clearing-transition')
    return o


# ---------------------------------------------------------------- exhaustive bridges
SINGLES = ['1', '2', '3', '4', '5', '6', '7', '8', '9', '10', '11', '20', '21', '22', '23', '24', '25', '26', '27', '28', '29',
           '30', '31', '37', '38;5;1', '38;5;255', '38;2;1;2;3', '39', '40', '41', '48;5;1', '48;2;1;2;3', '49', '50', '51',
           '52', '53', '54', '55', '58;5;1', '58;2;1;2;3', '59', '90', '97', '100', '107']
DOUBLES = [['1', '31'], ['1', '22'], ['22', '1'], ['31', '39'], ['39', '31'], ['4', '58;5;1'], ['1', '2'], ['31', '41'], ['4', '21'],
           ['38;5;1', '38;2;1;2;3'], ['3', '9'], ['51', '52'], ['11', '10'], ['5', '25'], ['7', '8'], ['53', '26'], ['49', '41'],
           ['59', '58;5;1'], ['24', '4'], ['2', '34']]
STATES = [[s] for s in SINGLES] + DOUBLES
# not-optimisable companions (reset / unknown / multi-group verbatim) exercise the non-optimising path
ODD_STATES = [['0'], ['56'], ['1;31'], ['0', '31'], ['31', '0'], ['56', '4']]


# settings of other effect groups on the whole text: with them a transition is cheaper to write as a difference than as
# reset + everything again, so the optimiser's difference path is taken also when only one effect changes
BALLAST = ['44', '9', '7', '26']


def bridge_value(A, B, layout, ballast=False):
    sa = [{'k': 'aset', 'v': x} for x in A]
    sb = [{'k': 'aset', 'v': x} for x in B]
    if ballast:
        v = bridge_value(A, B, layout)
        v['ctor']['r'] = [{'s': [{'k': 'aset', 'v': x} for x in BALLAST], 'a': 0, 'b': None}] + v['ctor']['r']
        return v
    if layout == 0:
        r = [{'s': sa, 'a': 0, 'b': 1}, {'s': sb, 'a': 1, 'b': 2}]
        t = 'ab'
    elif layout == 1:
        r = [{'s': sa, 'a': 0, 'b': 2}, {'s': sb, 'a': 1, 'b': 2}]
        t = 'ab'
    elif layout == 2:
        r = [{'s': sa, 'a': 0, 'b': 2}, {'s': sb, 'a': 0, 'b': 1}]
        t = 'ab'
    else:
        r = [{'s': sa, 'a': 0, 'b': 1}, {'s': sb, 'a': 2, 'b': 3}]
        t = 'abc'
    return {'cls': 'S', 'ctor': {'k': 'ranges', 't': t, 'r': r}, 'ops': []}


def enum_bridges(tier):
    for A in STATES:
        for B in STATES:
            for layout in range(4):
                yield {'A': A, 'B': B, 'layout': layout}
                yield {'A': A, 'B': B, 'layout': layout, 'ballast': True}
    for A in STATES + ODD_STATES:
        for B in ODD_STATES:
            for layout in range(4):
                yield {'A': A, 'B': B, 'layout': layout}
                if A not in ODD_STATES:
                    yield {'A': B, 'B': A, 'layout': layout}


def eval_bridge(case):
    o = Outcome()
    v = Interp().build(bridge_value(case['A'], case['B'], case['layout'], case.get('ballast', False)))
    t, per = v.base_str, per_char(v)
    check_render(o, v, t, per)
    o.nontrivial = case['A'] != case['B']
    return o


def strat():
    return st.fixed_dictionaries({'p': gen.progs(CFG)})


def enum_small(tier):
    for names, depth, text in gen.small_scopes(tier):
        for i, p in enumerate(gen.small_values(names, depth, text)):
            yield {'p': p}
            if i % 7 == 0:
                yield {'p': dict(p, cls='s')}


SUBS = [
    Sub('render', eval_render, strategy=strat, quick=500, thorough=8000),
    Sub('small_exhaustive', eval_render, enumerate=enum_small,
        rule='every value reachable from a plain text by <= 2 apply/remove steps over {red, blue, bold} on 3 characters and by <= 3 steps over {red, blue} on 2 (thorough: 3) characters, each rendered under all 8 flag combinations',
        exhaustive_note='all values of the small scopes (staggered, duplicate, below-inserted and partly removed settings)'),
    Sub('bridge', eval_bridge, enumerate=enum_bridges,
        rule='all ordered pairs of %d style states x 4 layouts x {alone, on top of four other-group settings} x 8 flag combinations' % len(STATES),
        exhaustive_note='every ordered pair of style states from the pool (all effect groups: apply, clear, 256/rgb colour, two-setting states; plus reset/unknown/multi-group companions) in 4 layouts'),
]
