"""C06 -- apply_formatting changes exactly the range, with the documented precedence."""
from hypothesis import strategies as st
from vlib.core import Sub, Outcome
from vlib import gen, sgrterm
from vlib.interp import (Interp, BuilderInvalid, resolve_idx, per_char, same_settings, tail_settings, change_points, describe,
                         mk_settings, texts_of_specs, style, groups)
from ansi_string import AnsiString, AnsiStr

RULE = ('values = generated programs (both classes) x settings from the conflict pool in all spellings x start/end in '
        '{None} U [-14,14] U {+-100,+-10^6} x topmost in {True, False}; empty settings and empty ranges included. '
        'Non-trivial = non-empty range lying inside the text whose characters already carry a setting touching an effect '
        'group of the new settings, or a bound out of range; distinct by (text, per-character settings, settings, range, topmost).')
ASSUMPTIONS = ['E (the settings a spelling yields) is read from a fresh one-character string; spelling equivalence is C14',
               'new settings are recognised as the setting objects not reported anywhere before the call',
               'style assertions are skipped when a setting involved is not a complete plain parameter group']

CFG = gen.Cfg(esc=True, odd=0.12, invalid=True, incomplete=False, max_ops=4)


def ids_per_char(v):
    return [[(id(x), str(x)) for x in v.ansi_settings_at(i)] for i in range(len(v))]


def touched(texts):
    g = set()
    for t in texts:
        g |= groups(t)
    return g


def eval_apply(case):
    o = Outcome()
    try:
        v = Interp().build_checked(case['p'])
    except BuilderInvalid:
        o.skipped = 'builder_invalid'
        return o
    S = case['s']
    a, b, top = resolve_idx(case['a'], v), resolve_idx(case['b'], v), case['top']
    t = v.base_str
    n = len(t)
    before = ids_per_char(v)
    before_ids = set(i for p in before for i, _ in p)
    keep_alive = [v.ansi_settings_at(i) for i in range(n)]
    per_b = [tuple(x for _, x in p) for p in before]
    snapshot_eq = v.copy() if isinstance(v, AnsiString) else v
    E = texts_of_specs(S)
    settings = mk_settings(S)
    kw = {}
    if isinstance(v, AnsiString):
        ret = v.apply_formatting(settings, a, b, top)
        w = v
        if ret is not None:
            o.fail('return-value', 'apply_formatting returned %r' % (ret,))
    else:
        w = v.apply_formatting(settings, a, b, top)
        if type(w) is not AnsiStr:
            o.fail('result-type', type(w).__name__)
            return o
        if ids_per_char(v) != before or v.base_str != t:
            o.fail('ansistr-receiver-changed', describe(v))
    s0, s1, _ = slice(a, b).indices(n)
    what = '%s.apply_formatting(%r, %r, %r, topmost=%r)' % (
        'AnsiString(%r %s)' % (t, ' '.join('|'.join(p) or '-' for p in per_b)), list(E), a, b, top)
    if w.base_str != t:
        o.fail('text-changed', '%s -> %r' % (what, w.base_str))
        return o
    after = ids_per_char(w)
    per_a = [tuple(x for _, x in p) for p in after]
    empty = (not E) or s1 <= s0
    if empty:
        if per_a != per_b:
            o.fail('noop-changed', '%s -> %s' % (what, describe(w)))
        if isinstance(v, AnsiString) and not (w == snapshot_eq):
            o.fail('noop-changed-eq', '%s: no longer == to a copy taken before' % what)
    for k in range(n):
        if k < s0 or k >= s1 or empty:
            if not same_settings(per_a[k], per_b[k]):
                o.fail('outside-changed' if not empty else 'noop-changed', '%s: char %d (outside [%d,%d)) reports %r, before %r' % (what, k, s0, s1, per_a[k], per_b[k]))
                break
        else:
            old_after = tuple(x for i, x in after[k] if i in before_ids)
            new_after = tuple(x for i, x in after[k] if i not in before_ids)
            if sorted(per_a[k]) != sorted(per_b[k] + E):
                o.fail('inside-multiset', '%s: char %d reports %r, expected %r plus %r' % (what, k, per_a[k], per_b[k], E))
                break
            if not same_settings(old_after, per_b[k]):
                o.fail('inside-old-precedence', '%s: char %d old settings now %r, before %r' % (what, k, old_after, per_b[k]))
                break
            if new_after != E:
                o.fail('inside-new-order', '%s: char %d new settings %r, given %r' % (what, k, new_after, E))
                break
    tl = tail_settings(w)
    if tl != ():
        o.fail('not-closed', '%s: appended Z reports %r' % (what, tl))
    # precedence
    gE = touched(E)
    conflict = False
    if not empty and '?' not in gE and not o.fails:
        stE = dict(style(E))
        allg = set(sgrterm.SLOTS)
        chain = True
        for k in range(s0, s1):
            gold = touched(per_b[k])
            if '?' in gold:
                chain = False
                continue
            sb, sa = dict(style(per_b[k])), dict(style(per_a[k]))
            gset = allg if '*' in gE else (gE & allg)
            gold_set = allg if '*' in gold else (gold & allg)
            if gset & gold_set:
                conflict = True
            if not top:
                for g in gold_set:
                    if sa.get(g) != sb.get(g):
                        o.fail('not-topmost-changed-existing', '%s: char %d effect %s displayed %r, before %r (an existing setting %r governs it)' % (
                            what, k, g, sa.get(g), sb.get(g), per_b[k]))
                        break
                for g in gset - gold_set:
                    if sa.get(g) != stE.get(g):
                        o.fail('not-topmost-new-not-shown', '%s: char %d effect %s displayed %r, new settings mean %r and nothing conflicts' % (
                            what, k, g, sa.get(g), stE.get(g)))
                        break
            else:
                if k > s0:
                    prev_ids = set(i for i, _ in after[k - 1])
                    if any(i in before_ids and i not in prev_ids for i, _ in after[k]):
                        chain = False
                if chain:
                    for g in gset:
                        if sa.get(g) != stE.get(g):
                            o.fail('topmost-not-on-top', '%s: char %d effect %s displayed %r, new settings mean %r' % (
                                what, k, g, sa.get(g), stE.get(g)))
                            break
            if o.fails:
                break
    oob = any(x is not None and (x > n or x < -n) for x in (a, b))
    o.nontrivial = (not empty and conflict and 0 <= s0 and s1 <= n) or (not empty and oob)
    o.key = [t, per_b, list(E), a, b, top]
    o.label('top' if top else 'not-top', 'empty' if empty else 'nonempty', 'cls:' + type(v).__name__)
    if conflict:
        o.label('conflict')
    if oob:
        o.label('bound-out-of-range')
    del keep_alive
    return o


def strat():
    cfg = CFG
    s = st.one_of(gen.specs(cfg, 1, 3), gen.specs(cfg, 1, 3), gen.specs(cfg, 1, 3), gen.specs(cfg, 1, 3),
                  st.sampled_from([[], [{'k': 'str', 'v': ''}], [{'k': 'str', 'v': ';;'}], [{'k': 'list', 'v': []}]]))
    return st.fixed_dictionaries({'p': gen.progs(cfg), 's': s, 'a': gen.ridx(), 'b': gen.ridx(),
                                  'top': st.booleans()})


@st.composite
def strat_under(draw):
    """apply underneath / on top of a value with staggered conflicting settings (the topmost machinery)."""
    names = ['red', 'blue', 'bold', 'faint', 'no_bold_faint', 'fg_default', 'underline', 'no_underline', 'orange', 'bg_red', 'italic',
             'rgb(1,2,3)', 'color256(9)', 'rgb(1,2,3)']
    n = draw(st.integers(2, 7))
    t = draw(gen.texts(n, n, nonascii=False))
    rs = []
    for _ in range(draw(st.integers(1, 4))):
        a = draw(st.integers(0, n - 1))
        b = draw(st.one_of(st.integers(a + 1, n), st.none()))
        rs.append({'s': [{'k': 'name', 'v': draw(st.sampled_from(names))}], 'a': a, 'b': b, 'top': draw(st.booleans())})
    a = draw(st.integers(0, n - 1))
    b = draw(st.one_of(st.integers(a + 1, n), st.none()))
    S = [{'k': 'name', 'v': x} for x in draw(st.lists(st.sampled_from(names), min_size=1, max_size=2))]
    return {'p': {'cls': draw(st.sampled_from(['S', 'S', 's'])), 'ctor': {'k': 'ranges', 't': t, 'r': rs}, 'ops': []},
            's': S, 'a': a, 'b': b, 'top': draw(st.sampled_from([False, False, True]))}


@st.composite
def strat_restart(draw):
    """values in which a setting was inserted below existing ones (topmost=False) on a sub-range and then removed again,
    followed by a topmost application over a range that contains the former start index"""
    names = ['red', 'blue', 'bold', 'faint', 'no_bold_faint', 'underline', 'no_underline', 'ul_blue', 'italic', 'bg_red', 'fg_default']
    n = draw(st.integers(2, 7))
    t = draw(gen.texts(n, n, nonascii=False))
    rs = []
    for _ in range(draw(st.integers(1, 2))):
        a = draw(st.integers(0, n - 1))
        rs.append({'s': [{'k': 'name', 'v': draw(st.sampled_from(names))}], 'a': a, 'b': draw(st.one_of(st.none(), st.integers(a + 1, n))), 'top': draw(st.booleans())})
    ops = []
    for _ in range(draw(st.integers(1, 2))):
        low = draw(st.sampled_from(['italic', 'crossed_out', 'bold', 'red']))
        a = draw(st.integers(0, n - 1))
        b = draw(st.one_of(st.none(), st.integers(a + 1, n)))
        ops.append({'op': 'apply', 's': [{'k': 'name', 'v': low}], 'a': a, 'b': b, 'top': False})
        ops.append({'op': 'remove', 's': [{'k': 'name', 'v': low}], 'a': draw(st.sampled_from([0, a])), 'b': None})
    a = draw(st.integers(0, max(0, n - 2)))
    S = [{'k': 'name', 'v': draw(st.sampled_from(names))}]
    return {'p': {'cls': draw(st.sampled_from(['S', 'S', 's'])), 'ctor': {'k': 'ranges', 't': t, 'r': rs}, 'ops': ops},
            's': S, 'a': a, 'b': draw(st.one_of(st.none(), st.integers(a + 1, n))), 'top': True}


def enum_small(tier):
    """every value of the small scopes x every apply_formatting call of the same scope"""
    for names, depth, text in gen.small_scopes(tier):
        calls = gen.small_steps(names, removes=False, n=len(text))
        for i, p in enumerate(gen.small_values(names, depth, text)):
            for c in calls:
                yield {'p': p, 's': c['s'], 'a': c['a'], 'b': c['b'], 'top': c['top']}
            if i % 7 == 0:
                q = dict(p, cls='s')
                for c in calls[::5]:
                    yield {'p': q, 's': c['s'], 'a': c['a'], 'b': c['b'], 'top': c['top']}


SUBS = [
    Sub('apply_after_restart', eval_apply, strategy=strat_restart, quick=300, thorough=5000,
        rule='a setting inserted below (topmost=False) and removed again, then a topmost application across its former start'),
    Sub('small_exhaustive', eval_apply, enumerate=enum_small,
        rule='every value reachable from a plain text by <= 2 apply/remove steps over {red, blue, bold} on 3 characters and by <= 3 steps over {red, blue} on 2 characters (thorough: 3) - all ranges, topmost both ways, x every apply_formatting call of the same scope',
        exhaustive_note='all values of the small scopes x all apply_formatting calls of that scope'),
    Sub('apply', eval_apply, strategy=strat, quick=500, thorough=8000),
    Sub('apply_conflict', eval_apply, strategy=strat_under, quick=600, thorough=10000,
        rule='small values with staggered conflicting settings; the new settings conflict with what is there'),
]
